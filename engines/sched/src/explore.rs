//! Shuttle-flavour orchestration of the C15 check (parts 1-5, see DESIGN.md section 3/C15).

use crate::model::{self, Event, Proto};
use crate::*;
use shuttle::scheduler::{Schedule, Scheduler, Task, TaskId};
use stateright::{Checker, Model};
use std::collections::HashSet;
use std::sync::atomic::{AtomicU64, AtomicUsize, Ordering};
use std::sync::{Arc, Mutex};
use std::time::Instant;

// ------------------------------------------------------------------------------------------------
// schedulers

/// Depth-first exploration of all schedules, optionally bounded in preemptions.
/// Option order at a scheduling point: the running task first (if still runnable), then ascending
/// ids; choosing anything else than a still-runnable running task costs one preemption.
pub struct Dfs {
    deadline: Option<Instant>,
    levels: Vec<(usize, usize)>,
    steps: usize,
    preempt: usize,
    bound: Option<usize>,
    started: bool,
    shared: Arc<DfsShared>,
}
#[derive(Default)]
pub struct DfsShared {
    pub executions: AtomicU64,
    pub max_depth: AtomicUsize,
    pub choices: Mutex<Vec<usize>>,
    pub nondeterminism: Mutex<Option<String>>,
    /// the time budget ran out before the schedule tree was exhausted
    pub capped: std::sync::atomic::AtomicBool,
}
impl Dfs {
    pub fn new(bound: Option<usize>, shared: Arc<DfsShared>, budget_s: Option<f64>) -> Dfs {
        Dfs { deadline: budget_s.map(|b| Instant::now() + std::time::Duration::from_secs_f64(b)), levels: vec![], steps: 0, preempt: 0, bound, started: false, shared }
    }
}
impl Scheduler for Dfs {
    fn new_execution(&mut self) -> Option<Schedule> {
        if self.shared.nondeterminism.lock().unwrap().is_some() {
            return None;
        }
        if self.started {
            if let Some(d) = self.deadline {
                if Instant::now() > d {
                    self.shared.capped.store(true, Ordering::SeqCst);
                    return None;
                }
            }
            loop {
                match self.levels.last_mut() {
                    None => return None,
                    Some(l) => {
                        if l.0 + 1 < l.1 {
                            l.0 += 1;
                            break;
                        }
                        self.levels.pop();
                    }
                }
            }
        }
        self.started = true;
        self.steps = 0;
        self.preempt = 0;
        self.shared.executions.fetch_add(1, Ordering::Relaxed);
        self.shared.choices.lock().unwrap().clear();
        Some(Schedule::new(0))
    }
    fn next_task(&mut self, runnable: &[&Task], current: Option<TaskId>, _is_yielding: bool) -> Option<TaskId> {
        let mut ids: Vec<usize> = runnable.iter().map(|t| usize::from(t.id())).collect();
        ids.sort();
        let cur = current.map(usize::from).filter(|c| ids.contains(c));
        let mut options: Vec<usize> = vec![];
        if let Some(c) = cur {
            options.push(c);
        }
        options.extend(ids.iter().filter(|i| Some(**i) != cur));
        let allowed = match (cur, self.bound) {
            (Some(_), Some(b)) if self.preempt >= b => 1,
            _ => options.len(),
        };
        let c = if self.steps < self.levels.len() {
            let (c, n) = self.levels[self.steps];
            if n != allowed {
                *self.shared.nondeterminism.lock().unwrap() = Some(format!("replaying a schedule prefix diverged at step {}: {} options recorded, {} now", self.steps, n, allowed));
                ipt_verif_rt::stop();
                return None;
            }
            c
        } else {
            self.levels.push((0, allowed));
            0
        };
        if cur.is_some() && c != 0 {
            self.preempt += 1;
        }
        self.steps += 1;
        self.shared.max_depth.fetch_max(self.steps, Ordering::Relaxed);
        self.shared.choices.lock().unwrap().push(options[c]);
        Some(TaskId::from(options[c]))
    }
    fn next_u64(&mut self) -> u64 {
        0
    }
}

/// Replays a recorded list of task choices; any divergence is a hard error.
pub struct Replay {
    choices: Vec<usize>,
    step: usize,
    started: bool,
    pub error: Arc<Mutex<Option<String>>>,
}
impl Scheduler for Replay {
    fn new_execution(&mut self) -> Option<Schedule> {
        if self.started {
            None
        } else {
            self.started = true;
            Some(Schedule::new(0))
        }
    }
    fn next_task(&mut self, runnable: &[&Task], current: Option<TaskId>, _y: bool) -> Option<TaskId> {
        let ids: Vec<usize> = runnable.iter().map(|t| usize::from(t.id())).collect();
        if self.step >= self.choices.len() {
            // past the recorded part (the recorded execution failed here): keep the running task
            self.step += 1;
            if let Some(c) = current {
                if ids.contains(&usize::from(c)) {
                    return Some(c);
                }
            }
            return Some(runnable[0].id());
        }
        let want = self.choices[self.step];
        self.step += 1;
        if self.error.lock().unwrap().is_some() {
            // already diverged: the recorded schedule does not apply to this code any more;
            // let the execution finish on its own so that its result can still be judged
            if let Some(c) = current {
                if ids.contains(&usize::from(c)) {
                    return Some(c);
                }
            }
            return Some(runnable[0].id());
        }
        if ids.contains(&want) {
            Some(TaskId::from(want))
        } else {
            *self.error.lock().unwrap() = Some(format!("the recorded schedule does not apply to this code (step {}: task {} not runnable, runnable = {:?}); the execution was left to finish on its own", self.step - 1, want, ids));
            Some(runnable[0].id())
        }
    }
    fn next_u64(&mut self) -> u64 {
        0
    }
}

/// Follows a model trace event by event: always runs the actor of the next expected event.
pub struct Guided {
    trace: Arc<Vec<Event>>,
    fail: Arc<Mutex<Option<String>>>,
    started: bool,
}
impl Scheduler for Guided {
    fn new_execution(&mut self) -> Option<Schedule> {
        if self.started {
            None
        } else {
            self.started = true;
            Some(Schedule::new(0))
        }
    }
    fn next_task(&mut self, runnable: &[&Task], current: Option<TaskId>, _y: bool) -> Option<TaskId> {
        let done = ipt_verif_rt::log_len();
        let ids: Vec<usize> = runnable.iter().map(|t| usize::from(t.id())).collect();
        if done >= self.trace.len() {
            // epilogue (joins, scope exit): no shared protocol state left
            if let Some(c) = current {
                if ids.contains(&usize::from(c)) {
                    return Some(c);
                }
            }
            return Some(runnable[0].id());
        }
        if self.fail.lock().unwrap().is_some() {
            // already diverged from the model trace: let the execution run to completion on its own
            if let Some(c) = current {
                if ids.contains(&usize::from(c)) {
                    return Some(c);
                }
            }
            return Some(runnable[0].id());
        }
        let want = self.trace[done].0;
        if ids.contains(&want) {
            Some(TaskId::from(want))
        } else {
            // the code cannot follow the model here: the model no longer describes the code.
            // That is not a property violation by itself - finish the execution and judge its result.
            *self.fail.lock().unwrap() = Some(format!("step {}: model wants actor {} to do '{}' but the runnable tasks are {:?}", done, want, self.trace[done].1, ids));
            Some(runnable[0].id())
        }
    }
    fn next_u64(&mut self) -> u64 {
        0
    }
}

fn config() -> shuttle::Config {
    let mut c = shuttle::Config::new();
    c.failure_persistence = shuttle::FailurePersistence::None;
    c.silence_warnings = true;
    c
}

// ------------------------------------------------------------------------------------------------
// bookkeeping

#[derive(Clone, Debug)]
pub struct Cfg {
    pub w: usize,
    pub days: i64,
    pub threshold: usize,
    pub fine: bool,
    pub bound: Option<usize>,
}
impl Cfg {
    /// None = the sequential branch is taken; Some(p) = parallel branch with p partitions (p may be 0)
    pub fn partitions(&self) -> Option<usize> {
        if self.w < 2 || (self.days.max(0) as usize) / self.w < self.threshold {
            None
        } else {
            Some(range(self.days).partition(self.w).len())
        }
    }
    pub fn from_json(c: &Value) -> Cfg {
        Cfg { w: c["workers"].as_u64().unwrap() as usize, days: c["days"].as_i64().unwrap(), threshold: c["threshold"].as_u64().unwrap() as usize, fine: c["fine_granularity"].as_bool().unwrap(), bound: c["preemption_bound"].as_u64().map(|b| b as usize) }
    }
    pub fn json(&self) -> Value {
        json!({"workers": self.w, "days": self.days, "threshold": self.threshold, "fine_granularity": self.fine, "preemption_bound": self.bound})
    }
}

pub struct Out {
    pub violations: AtomicU64,
    pub files: Mutex<Vec<String>>,
    pub tier: String,
    /// child processes collect their findings here; the parent writes the files
    pub collect: Option<Mutex<Vec<Value>>>,
}
impl Out {
    pub fn violation(&self, clause: &str, case: Value, detail: Value) {
        if let Some(c) = &self.collect {
            let mut c = c.lock().unwrap();
            if c.len() < 5 {
                c.push(json!({"clause": clause, "case": case, "detail": detail}));
            }
            return;
        }
        let n = self.violations.fetch_add(1, Ordering::SeqCst) + 1;
        if n > 20 {
            return;
        }
        let dir = format!("{}/replays/C15", verif_dir());
        let _ = std::fs::create_dir_all(&dir);
        let path = format!("{}/{}-{}-{:02}.json", dir, self.tier, clause, n);
        std::fs::write(&path, serde_json::to_string_pretty(&json!({"property": "C15", "clause": clause, "case": case, "detail": detail})).unwrap()).unwrap();
        println!("VIOLATION property=C15 replay={}", path);
        println!("  clause={} detail={}", clause, detail);
        self.files.lock().unwrap().push(path);
    }
}

pub struct Explored {
    pub capped: bool,
    pub schedules: u64,
    pub max_depth: usize,
    pub traces: HashSet<Vec<Event>>,
    pub failed: bool,
}

thread_local! { static QUIET_MSG: std::cell::RefCell<Option<String>> = std::cell::RefCell::new(None); }
fn install_quiet_hook() {
    std::panic::set_hook(Box::new(|info| {
        let msg = info.payload().downcast_ref::<&str>().map(|s| s.to_string()).or_else(|| info.payload().downcast_ref::<String>().cloned()).unwrap_or_default();
        let loc = info.location().map(|l| format!("{}:{}", l.file(), l.line())).unwrap_or_default();
        QUIET_MSG.with(|m| {
            let mut m = m.borrow_mut();
            if m.is_none() {
                *m = Some(format!("{} at {}", msg, loc));
            }
        });
    }));
}
fn take_msg() -> String {
    QUIET_MSG.with(|m| m.borrow_mut().take()).unwrap_or_default()
}

/// Explore every schedule (within `cfg.bound`) of the real parallel range API for one configuration.
pub fn explore_cfg(cfg: &Cfg, out: &Out, budget_s: Option<f64>) -> Explored {
    let params = Params::new(Method::Isna);
    let dr = range(cfg.days);
    let expected = Arc::new(prayer_times_dt_rng(&params, location(), &dr));
    let shared = Arc::new(DfsShared::default());
    let traces: Arc<Mutex<HashSet<Vec<Event>>>> = Arc::new(Mutex::new(HashSet::new()));
    let mismatch: Arc<Mutex<Option<String>>> = Arc::new(Mutex::new(None));
    let runner = shuttle::Runner::new(Dfs::new(cfg.bound, shared.clone(), budget_s), config());
    let (c2, t2, e2, m2, p2) = (cfg.clone(), traces.clone(), expected.clone(), mismatch.clone(), params.clone());
    let _ = take_msg();
    let res = std::panic::catch_unwind(std::panic::AssertUnwindSafe(|| {
        runner.run(move || {
            ipt_verif_rt::reset(c2.fine);
            ipt_verif_rt::set_parallelism(c2.w);
            let r = prayer_times_dt_rng_block(&p2, location(), &range(c2.days), c2.threshold);
            let log = ipt_verif_rt::take_log();
            if r != *e2 {
                *m2.lock().unwrap() = Some(format!("parallel result has {} dates, sequential {}; first missing: {:?}", r.len(), e2.len(), e2.keys().find(|d| !r.contains_key(d))));
                panic!("RESULT MISMATCH");
            }
            t2.lock().unwrap().insert(log);
        })
    }));
    let mut failed = false;
    if let Some(nd) = shared.nondeterminism.lock().unwrap().clone() {
        eprintln!("MACHINERY: uncontrolled nondeterminism while exploring {:?}: {}", cfg, nd);
        std::process::exit(3);
    }
    if res.is_err() {
        failed = true;
        let msg = take_msg();
        let choices = shared.choices.lock().unwrap().clone();
        let mm = mismatch.lock().unwrap().clone();
        let clause = if mm.is_some() {
            "parallel_equals_sequential"
        } else if msg.contains("deadlock") {
            "always_terminates"
        } else {
            "no_panic_under_any_schedule"
        };
        out.violation(clause, json!({"mode": "schedule", "cfg": cfg.json(), "choices": choices}), json!({"panic": msg, "mismatch": mm, "schedule_number": shared.executions.load(Ordering::Relaxed), "events_before_failure": ipt_verif_rt::take_log().iter().map(|e| format!("{}:{}", e.0, e.1)).collect::<Vec<_>>()}));
    }
    let traces = std::mem::take(&mut *traces.lock().unwrap());
    Explored { capped: shared.capped.load(Ordering::SeqCst), schedules: shared.executions.load(Ordering::Relaxed), max_depth: shared.max_depth.load(Ordering::Relaxed), traces, failed }
}

/// Run one schedule given as a list of task choices; returns (event log, result ok, error)
pub fn run_choices(cfg: &Cfg, choices: &[usize]) -> (Vec<Event>, Option<bool>, Option<String>) {
    let params = Params::new(Method::Isna);
    let expected = Arc::new(prayer_times_dt_rng(&params, location(), &range(cfg.days)));
    let error = Arc::new(Mutex::new(None));
    let ok: Arc<Mutex<Option<bool>>> = Arc::new(Mutex::new(None));
    let log: Arc<Mutex<Vec<Event>>> = Arc::new(Mutex::new(vec![]));
    let runner = shuttle::Runner::new(Replay { choices: choices.to_vec(), step: 0, started: false, error: error.clone() }, config());
    let (c2, o2, l2, e2) = (cfg.clone(), ok.clone(), log.clone(), expected.clone());
    let _ = take_msg();
    let res = std::panic::catch_unwind(std::panic::AssertUnwindSafe(|| {
        runner.run(move || {
            ipt_verif_rt::reset(c2.fine);
            ipt_verif_rt::set_parallelism(c2.w);
            let r = prayer_times_dt_rng_block(&params, location(), &range(c2.days), c2.threshold);
            *l2.lock().unwrap() = ipt_verif_rt::take_log();
            *o2.lock().unwrap() = Some(r == *e2);
        })
    }));
    let mut err = error.lock().unwrap().clone();
    if res.is_err() {
        err = Some(format!("panic: {}", take_msg()));
        *log.lock().unwrap() = ipt_verif_rt::take_log();
    }
    let l = log.lock().unwrap().clone();
    let o = *ok.lock().unwrap();
    (l, o, err)
}

pub enum Replayed {
    Conforms,
    /// the code ran to completion with the right result but did not follow the model trace
    BindingLost(String),
    /// panic, deadlock or wrong result: a violation of the property itself
    Violation(String),
}

/// Replay one model trace on the real code.
pub fn replay_trace(p: usize, trace: &[Event], expected: &RangeResult, params: &Params) -> Replayed {
    let fail = Arc::new(Mutex::new(None));
    let res: Arc<Mutex<Option<(bool, Vec<Event>)>>> = Arc::new(Mutex::new(None));
    let runner = shuttle::Runner::new(Guided { trace: Arc::new(trace.to_vec()), fail: fail.clone(), started: false }, config());
    let (r2, p2) = (res.clone(), params.clone());
    let exp = expected.clone();
    let _ = take_msg();
    let run = std::panic::catch_unwind(std::panic::AssertUnwindSafe(|| {
        runner.run(move || {
            ipt_verif_rt::reset(true);
            ipt_verif_rt::set_parallelism(p.max(2));
            let r = prayer_times_dt_rng_block(&p2, location(), &range(p as i64), 0);
            *r2.lock().unwrap() = Some((r == exp, ipt_verif_rt::take_log()));
        })
    }));
    if run.is_err() {
        return Replayed::Violation(format!("panic while replaying: {}", take_msg()));
    }
    let diverged = fail.lock().unwrap().clone();
    let taken = res.lock().unwrap().take();
    match taken {
        None => Replayed::Violation("execution did not complete".into()),
        Some((ok, log)) => {
            if !ok {
                Replayed::Violation(format!("the parallel result differs from the sequential one under this schedule (events: {:?})", log))
            } else if let Some(d) = diverged {
                Replayed::BindingLost(d)
            } else if log != trace {
                Replayed::BindingLost(format!("code produced a different event trace: {:?}", log))
            } else {
                Replayed::Conforms
            }
        }
    }
}

fn fmt_trace(t: &[Event]) -> Vec<String> {
    t.iter().map(|e| format!("{}:{}", e.0, e.1)).collect()
}

fn par_for<T: Sync, F: Fn(&T) + Sync>(items: &[T], f: F) {
    let n = std::thread::available_parallelism().map(|n| n.get()).unwrap_or(4).min(items.len().max(1));
    let next = AtomicUsize::new(0);
    std::thread::scope(|s| {
        for _ in 0..n {
            s.spawn(|| {
                install_quiet_hook();
                loop {
                    let i = next.fetch_add(1, Ordering::Relaxed);
                    if i >= items.len() {
                        break;
                    }
                    f(&items[i]);
                }
            });
        }
    });
}

// ------------------------------------------------------------------------------------------------

pub fn check(tier: &str, std_bin: &str) -> i32 {
    let quick = tier == "quick";
    let t0 = Instant::now();
    install_quiet_hook();
    let out = Out { violations: AtomicU64::new(0), files: Mutex::new(vec![]), tier: tier.to_string(), collect: None };
    let seed: i64 = std::env::var("VERIF_SEED").ok().and_then(|s| s.parse().ok()).unwrap_or(0);

    // ---- part 5 (started first, runs concurrently): configuration axis with real OS threads
    let std_bin2 = std_bin.to_string();
    let tier2 = tier.to_string();
    let sweep = std::thread::spawn(move || std::process::Command::new(&std_bin2).args(["sweep", &tier2]).output());

    // ---- parts 1 and 2: exhaustive schedule exploration of the real code
    let mut cfgs: Vec<(String, Cfg)> = vec![];
    for w in [2usize, 3] {
        // -2: a range whose end lies three days before its start (an empty range, like 0)
        for days in [-2i64, 0, 1, 2, w as i64, w as i64 + 1, 2 * w as i64 + 1] {
            for threshold in [0usize, 1] {
                let c = Cfg { w, days, threshold, fine: false, bound: None };
                // quick: unbounded for <= 2 partitions and for the 3-partition configurations with threshold 0
                if c.partitions() == Some(3) {
                    for b in [0, 1, 2] {
                        cfgs.push((format!("stock/bound{}", b), Cfg { bound: Some(b), ..c.clone() }));
                    }
                }
                cfgs.push(("stock/unbounded".into(), c));
            }
        }
    }
    // fine granularity
    for (w, days) in [(2usize, 0i64), (2, 1), (3, 1)] {
        cfgs.push(("fine/unbounded".into(), Cfg { w, days, threshold: 0, fine: true, bound: None }));
    }
    if quick {
        for b in [0, 1, 2] {
            cfgs.push((format!("fine/bound{}", b), Cfg { w: 2, days: 2, threshold: 0, fine: true, bound: Some(b) }));
            cfgs.push((format!("fine/bound{}", b), Cfg { w: 3, days: 2, threshold: 0, fine: true, bound: Some(b) }));
        }
    } else {
        cfgs.push(("fine/unbounded".into(), Cfg { w: 2, days: 2, threshold: 0, fine: true, bound: None }));
        cfgs.push(("fine/unbounded".into(), Cfg { w: 3, days: 2, threshold: 0, fine: true, bound: None }));
    }
    let bounded: Vec<(usize, Vec<usize>)> = if quick { vec![(3, vec![0, 1, 2]), (4, vec![0, 1, 2]), (5, vec![0, 1])] } else { vec![(3, vec![0, 1, 2, 3]), (4, vec![0, 1, 2, 3]), (5, vec![0, 1, 2]), (6, vec![0, 1])] };
    for (p, bs) in &bounded {
        for b in bs {
            cfgs.push((format!("fine/bound{}", b), Cfg { w: *p, days: *p as i64, threshold: 0, fine: true, bound: Some(*b) }));
        }
    }
    // biggest first; every configuration is explored in its own single-threaded child process
    // (separate address spaces: shuttle maps a stack per task per execution, which serialises
    // threads of one process on the memory-map lock; it also isolates engine crashes)
    cfgs.sort_by_key(|(_, c)| std::cmp::Reverse((c.partitions().unwrap_or(0), c.bound.map(|b| b + 1).unwrap_or(99))));
    let me = std::env::current_exe().expect("current_exe");
    // time budget per configuration: on the unchanged tree the largest one takes ~9 s (quick) / a few
    // minutes (thorough); a change that adds scheduling points can blow the tree up - then the
    // configuration is reported as capped (not exhaustive), never silently truncated
    let budget_s: f64 = if quick { 60.0 } else { 1500.0 };
    let results: Mutex<Vec<(String, Cfg, Value)>> = Mutex::new(vec![]);
    par_for(&cfgs, |(kind, c)| {
        let want_traces = kind == "fine/unbounded" && c.partitions().map(|p| p >= 1 && c.days == p as i64).unwrap_or(false);
        let o = std::process::Command::new(&me).args(["child-cfg", &c.json().to_string(), if want_traces { "traces" } else { "no" }, &budget_s.to_string()]).output().expect("spawn child");
        let text = String::from_utf8_lossy(&o.stdout).to_string();
        match text.lines().find_map(|l| l.strip_prefix("RESULT ")).and_then(|l| serde_json::from_str::<Value>(l).ok()) {
            Some(v) => results.lock().unwrap().push((kind.clone(), c.clone(), v)),
            None => {
                eprintln!("MACHINERY: child exploring {:?} gave no result (exit {:?}): {}", c, o.status.code(), String::from_utf8_lossy(&o.stderr));
                std::process::exit(3);
            }
        }
    });
    let results = results.into_inner().unwrap();
    let mut schedules_total = 0u64;
    let mut distinct_traces_total = 0u64;
    let mut walked = 0u64;
    let mut binding_lost = 0u64;
    let mut binding_samples: Vec<Value> = vec![];
    let mut capped: Vec<Value> = vec![];
    let mut per_cfg = vec![];
    let mut fine_unbounded_sets: BTreeMap<usize, HashSet<Vec<String>>> = BTreeMap::new();
    for (kind, c, v) in &results {
        schedules_total += v["schedules"].as_u64().unwrap();
        distinct_traces_total += v["distinct_event_traces"].as_u64().unwrap();
        walked += v["walked_through_model"].as_u64().unwrap();
        binding_lost += v["binding_lost"].as_u64().unwrap_or(0);
        for b in v["binding_lost_samples"].as_array().cloned().unwrap_or_default() {
            if binding_samples.len() < 4 {
                binding_samples.push(json!({"cfg": c.json(), "sample": b}));
            }
        }
        per_cfg.push(json!({"kind": kind, "cfg": c.json(), "partitions": c.partitions(), "schedules": v["schedules"], "max_scheduling_points": v["max_depth"], "distinct_event_traces": v["distinct_event_traces"], "seconds": v["seconds"], "failed": v["failed"], "capped_by_time_budget": v["capped"]}));
        if v["capped"].as_bool().unwrap_or(false) {
            capped.push(json!({"kind": kind, "cfg": c.json(), "schedules_before_cap": v["schedules"]}));
        }
        for f in v["findings"].as_array().cloned().unwrap_or_default() {
            out.violation(f["clause"].as_str().unwrap(), f["case"].clone(), f["detail"].clone());
        }
        if let Some(ts) = v["traces"].as_array() {
            if !v["failed"].as_bool().unwrap_or(false) {
                let set = fine_unbounded_sets.entry(c.partitions().unwrap()).or_default();
                for t in ts {
                    set.insert(serde_json::from_value(t.clone()).unwrap());
                }
            }
        }
    }
    println!("parts 1-2: {} configurations, {} schedules, {} distinct event traces, all walked through the model ({:.1}s)", results.len(), schedules_total, distinct_traces_total, t0.elapsed().as_secs_f64());
    if !capped.is_empty() {
        println!("CAPPED: {} configuration(s) hit the {} s budget before their schedule tree was exhausted (reported as not exhaustive): {}", capped.len(), budget_s, json!(capped));
    }

    // ---- determinism check: one recorded schedule replayed twice gives identical observations
    let det_cfg = Cfg { w: 3, days: 3, threshold: 0, fine: true, bound: None };
    let det_choices = vec![0, 0, 1, 0, 2, 0, 3, 0, 4, 2, 3, 1, 4];
    let (l1, o1, e1) = run_choices(&det_cfg, &det_choices);
    let (l2, o2, e2) = run_choices(&det_cfg, &det_choices);
    if l1 != l2 || o1 != o2 || e1 != e2 {
        eprintln!("MACHINERY: the same schedule gave different observations: {:?} vs {:?}", (l1, o1, e1), (l2, o2, e2));
        return 3;
    }

    // ---- part 3: protocol model, all reachable states
    let pmax = if quick { 6 } else { 7 };
    let mut states = 0u64;
    let mut transitions = 0u64;
    let mut model_rows = vec![];
    for p in 1..=pmax {
        let t = Instant::now();
        let c = Proto { p }.checker().threads(8).spawn_bfs().join();
        let mut bad = vec![];
        let pm = Proto { p };
        for prop in pm.properties() {
            let d = c.discovery(prop.name);
            let violated = match prop.expectation {
                stateright::Expectation::Always | stateright::Expectation::Eventually => d.is_some(),
                stateright::Expectation::Sometimes => d.is_none(),
            };
            if violated {
                bad.push(json!({"property": prop.name, "counterexample": d.map(|p| format!("{:?}", p.into_actions()))}));
            }
        }
        if !bad.is_empty() {
            // the model is part of the harness: if its own properties fail the harness is broken
            eprintln!("MACHINERY: the protocol model violates its own properties for {} partitions: {}", p, json!(bad));
            return 3;
        }
        states += c.unique_state_count() as u64;
        transitions += c.state_count() as u64;
        model_rows.push(json!({"partitions": p, "unique_states": c.unique_state_count(), "states_generated": c.state_count(), "seconds": t.elapsed().as_secs_f64()}));
    }
    println!("part 3: model 1..={} partitions: {} unique states, {} generated ({:.1}s)", pmax, states, transitions, t0.elapsed().as_secs_f64());

    // ---- part 4a (code subset-of model) was done inside each child: every distinct recorded trace walked
    // ---- part 4b: exactness for small P: set of code traces == set of complete model traces
    let mut exact_rows = vec![];
    for (p, set) in &fine_unbounded_sets {
        let mut mset: HashSet<Vec<String>> = HashSet::new();
        model::traces(*p, None, |t| {
            mset.insert(fmt_trace(t));
        });
        exact_rows.push(json!({"partitions": p, "code_traces": set.len(), "model_traces": mset.len(), "equal": *set == mset}));
        if *set != mset {
            let only_model: Vec<_> = mset.difference(set).take(2).cloned().collect();
            let only_code: Vec<_> = set.difference(&mset).take(2).cloned().collect();
            binding_lost += 1;
            binding_samples.push(json!({"partitions": p, "what": "set of code traces differs from the set of complete model traces", "only_in_model": only_model, "only_in_code": only_code, "code": set.len(), "model": mset.len()}));
        }
    }
    // ---- part 4c: model subset-of code: replay model traces on the real code (guided scheduler)
    let mut replay_rows = vec![];
    let lost4 = AtomicU64::new(0);
    let lost4_samples: Mutex<Vec<Value>> = Mutex::new(vec![]);
    let mut replayed_total = 0u64;
    let plan: Vec<(usize, Option<usize>)> = if quick { vec![(1, None), (2, None), (3, None), (4, Some(1)), (5, Some(0))] } else { vec![(1, None), (2, None), (3, None), (4, Some(2)), (5, Some(1)), (6, Some(1))] };
    let mut sample_trace: Vec<String> = vec![];
    for (p, bound) in plan {
        let t = Instant::now();
        let nchild = if model::traces(p, bound, |_| {}) > 4000 { 16usize } else { 1 };
        let ks: Vec<usize> = (0..nchild).collect();
        let total = AtomicU64::new(0);
        let bad = AtomicU64::new(0);
        par_for(&ks, |k| {
            let _ = &lost4;
            let o = std::process::Command::new(&me).args(["child-guided", &p.to_string(), &bound.map(|b| b.to_string()).unwrap_or("none".into()), &k.to_string(), &nchild.to_string()]).output().expect("spawn child");
            let text = String::from_utf8_lossy(&o.stdout).to_string();
            match text.lines().find_map(|l| l.strip_prefix("RESULT ")).and_then(|l| serde_json::from_str::<Value>(l).ok()) {
                Some(v) => {
                    total.fetch_add(v["replayed"].as_u64().unwrap() - v["binding_lost"].as_u64().unwrap_or(0) - v["non_conforming"].as_u64().unwrap(), Ordering::Relaxed);
                    bad.fetch_add(v["non_conforming"].as_u64().unwrap(), Ordering::Relaxed);
                    lost4.fetch_add(v["binding_lost"].as_u64().unwrap_or(0), Ordering::Relaxed);
                    if let Some(b) = v["binding_lost_samples"].as_array().and_then(|a| a.first()) {
                        let mut g = lost4_samples.lock().unwrap();
                        if g.len() < 3 {
                            g.push(json!({"partitions": p, "sample": b}));
                        }
                    }
                    for f in v["findings"].as_array().cloned().unwrap_or_default() {
                        out.violation(f["clause"].as_str().unwrap(), f["case"].clone(), f["detail"].clone());
                    }
                }
                None => {
                    eprintln!("MACHINERY: guided child p={} gave no result (exit {:?}): {}", p, o.status.code(), String::from_utf8_lossy(&o.stderr));
                    std::process::exit(3);
                }
            }
        });
        if sample_trace.is_empty() && p == 2 {
            let mut all: Vec<Vec<Event>> = vec![];
            model::traces(p, bound, |t| all.push(t.to_vec()));
            sample_trace = fmt_trace(&all[all.len() / 2]);
        }
        replayed_total += total.load(Ordering::Relaxed);
        replay_rows.push(json!({"partitions": p, "preemption_bound_on_model_traces": bound, "model_traces_replayed_and_conforming": total.load(Ordering::Relaxed), "schedules_violating_the_property": bad.load(Ordering::Relaxed), "seconds": t.elapsed().as_secs_f64()}));
    }
    binding_lost += lost4.load(Ordering::Relaxed);
    binding_samples.extend(lost4_samples.lock().unwrap().iter().cloned());
    println!("part 4: {} code traces walked through the model, {} model traces replayed on the code ({:.1}s)", walked, replayed_total, t0.elapsed().as_secs_f64());
    let binding_intact = binding_lost == 0;
    if !binding_intact {
        // Not a violation of C15: every explored schedule still returned the sequential result and
        // terminated (anything else is reported above). But the protocol model no longer describes
        // this code, so nothing derived from the model is claimed for it.
        println!("MODEL-BINDING-LOST: {} traces of the code are not behaviours of the protocol model (or vice versa); model-derived coverage is withdrawn for this run. Samples: {}", binding_lost, json!(binding_samples));
    }

    // ---- part 5 result
    let mut sweep_json = json!(null);
    match sweep.join().unwrap() {
        Ok(o) => {
            let text = String::from_utf8_lossy(&o.stdout).to_string();
            for line in text.lines() {
                if let Ok(v) = serde_json::from_str::<Value>(line) {
                    if let Some(sv) = v.get("sweep_violation") {
                        out.violation("always_terminates", json!({"mode": "config", "scenario": sv["scenario"], "w": sv["w"], "days": sv["days"], "threshold": sv["threshold"]}), sv.clone());
                    }
                    if let Some(s) = v.get("sweep") {
                        for b in s["violations"].as_array().cloned().unwrap_or_default() {
                            out.violation("parallel_equals_sequential", json!({"mode": "config", "scenario": b["scenario"], "w": b["w"], "days": b["days"], "threshold": b["threshold"]}), b.clone());
                        }
                        sweep_json = s.clone();
                    }
                }
            }
            if sweep_json.is_null() && out.violations.load(Ordering::SeqCst) == 0 {
                eprintln!("MACHINERY: the std-flavour sweep produced no summary (exit {:?}): {}", o.status.code(), String::from_utf8_lossy(&o.stderr));
                return 3;
            }
        }
        Err(e) => {
            eprintln!("MACHINERY: cannot run {}: {}", std_bin, e);
            return 3;
        }
    }
    println!("part 5: {}", sweep_json);

    // ---- assumption monitor: the event-granularity argument needs workers that share no mutable state
    // outside the wrapped thread/channel operations. Scan the library sources for constructs that
    // would introduce such state (statics with interior mutability, static mut, thread_local, lazies, unsafe, non-std primitives).
    // Locks, atomics, condvars and threads from std are seen by the scheduler through the build-time redirection.
    let repo = std::env::var("IPT_REPO_DIR").unwrap_or_else(|_| "/repo".to_string());
    let mut shared_state_sites: Vec<String> = vec![];
    fn scan(dir: &std::path::Path, out: &mut Vec<String>) {
        if let Ok(rd) = std::fs::read_dir(dir) {
            for e in rd.flatten() {
                let p = e.path();
                if p.is_dir() {
                    scan(&p, out);
                } else if p.extension().map(|x| x == "rs").unwrap_or(false) {
                    if let Ok(text) = std::fs::read_to_string(&p) {
                        for (i, line) in text.lines().enumerate() {
                            let t = line.trim_start();
                            if t.starts_with("//") {
                                continue;
                            }
                            let is_static = t.starts_with("static ") || t.starts_with("pub static ") || t.starts_with("pub(crate) static ");
                            let interior = ["Mutex", "RwLock", "Atomic", "Cell", "OnceLock", "OnceCell", "LazyLock", "Lazy<"].iter().any(|k| t.contains(k));
                            // std::sync / std::thread are redirected to the scheduler-aware shim at build time
                            // (tools/redirect_sync.py); what that cannot cover is flagged here
                            let sync_outside_shim = ["UnsafeCell", "unsafe ", "OnceLock", "OnceCell", "LazyLock", "parking_lot", "crossbeam", "std as "].iter().any(|k| t.contains(k));
                            if t.contains("static mut ") || t.contains("thread_local!") || t.contains("lazy_static!") || (is_static && interior) || sync_outside_shim {
                                out.push(format!("{}:{}: {}", p.display(), i + 1, t));
                            }
                        }
                    }
                }
            }
        }
    }
    scan(std::path::Path::new(&format!("{}/src", repo)), &mut shared_state_sites);
    if !shared_state_sites.is_empty() {
        println!("ASSUMPTION-WARNING: the library contains shared mutable state that the controlled scheduler does not see (statics, thread-locals, unsafe, non-std primitives); interleavings inside accesses to it are not covered: {:?}", shared_state_sites);
    }

    // ---- evidence
    let viol = out.violations.load(Ordering::SeqCst);
    let wall = t0.elapsed().as_secs_f64();
    let doc = json!({
        "property_id": "C15",
        "tier": tier,
        "seed": seed,
        "level": "model_checking",
        "coverage": {
            "states": states,
            "transitions": transitions,
            "traces_validated_against_impl": if binding_intact { replayed_total + walked } else { 0 },
            "model_binding_intact": binding_intact,
            "assumption_no_shared_mutable_state_in_library": shared_state_sites.is_empty(),
            "shared_mutable_state_sites": shared_state_sites,
            "model_binding_lost_samples": binding_samples,
            "traces_validated_breakdown": {"model_traces_replayed_on_the_real_code": replayed_total, "real_code_traces_accepted_by_the_model": walked},
            "samples": [
                {"kind": "model trace replayed on the real code (actor:event; 0 main, 1 collector, 2+i worker i)", "partitions": 2, "trace": sample_trace},
                {"kind": "real-code exploration", "example": per_cfg.first()},
            ],
            "exhaustive": capped.is_empty(),
            "configurations_capped_by_time_budget": capped,
            "evaluations": schedules_total + replayed_total,
            "distinct_nontrivial": distinct_traces_total,
            "rule": "evaluations = schedules of the real code executed (DFS) + model traces replayed on it; distinct_nontrivial = distinct event traces (not schedules) observed per configuration, summed",
            "real_code_schedule_exploration": per_cfg,
            "schedules_explored": schedules_total,
            "protocol_model": model_rows,
            "model_traces_replayed_on_code": replay_rows,
            "code_traces_walked_through_model": walked,
            "exactness_code_traces_vs_model_traces": exact_rows,
            "configuration_sweep_real_threads": sweep_json,
            "determinism_check": "one recorded schedule replayed twice gave identical event logs and results",
            "bounds": "unbounded DFS where stated; otherwise preemption bound as listed per configuration (all executions run to completion)"
        },
        "assumptions": [
            "shuttle's mpsc channel and scoped threads model std's (sequentially consistent; weaker memory orderings inside std::sync::mpsc are out of scope)",
            "scheduling points: shuttle's own (send, recv, spawn, join) plus, in fine mode, one after every spawn and before every sender drop; workers share no state outside the wrapped operations",
            "part 5 runs one uncontrolled schedule per configuration: it decides the sequential/parallel decision logic and partition arithmetic, the schedule quantifier is carried by parts 1-4"
        ],
        "wall_s": (wall * 1000.0).round() / 1000.0,
        "violations": viol,
    });
    let _ = std::fs::create_dir_all(format!("{}/evidence", verif_dir()));
    std::fs::write(format!("{}/evidence/C15.json", verif_dir()), serde_json::to_string_pretty(&doc).unwrap() + "\n").unwrap();
    println!("C15 {}: schedules={} model_states={} traces_validated={} violations={} wall={:.1}s", tier, schedules_total, states, replayed_total + walked, viol, wall);
    if viol > 0 {
        1
    } else {
        0
    }
}

/// child: explore one configuration, walk every distinct trace through the model, print one RESULT line
pub fn child_cfg(cfg_json: &str, want_traces: bool, budget_s: Option<f64>) -> i32 {
    install_quiet_hook();
    let cfg = Cfg::from_json(&serde_json::from_str(cfg_json).expect("cfg json"));
    let out = Out { violations: AtomicU64::new(0), files: Mutex::new(vec![]), tier: String::new(), collect: Some(Mutex::new(vec![])) };
    let t = Instant::now();
    let e = explore_cfg(&cfg, &out, budget_s);
    let mut walked = 0u64;
    let mut lost = 0u64;
    let mut lost_samples: Vec<Value> = vec![];
    for tr in &e.traces {
        match cfg.partitions() {
            None => {
                if !tr.is_empty() {
                    lost += 1;
                    if lost_samples.len() < 2 {
                        lost_samples.push(json!({"trace": fmt_trace(tr), "what": "events although the sequential branch is expected"}));
                    }
                }
            }
            Some(p) => {
                walked += 1;
                if let Err(err) = model::walk(p, tr) {
                    walked -= 1;
                    lost += 1;
                    if lost_samples.len() < 2 {
                        lost_samples.push(json!({"trace": fmt_trace(tr), "what": err}));
                    }
                }
            }
        }
    }
    let traces: Option<Vec<Vec<String>>> = if want_traces { Some(e.traces.iter().map(|t| fmt_trace(t)).collect()) } else { None };
    let findings = out.collect.as_ref().unwrap().lock().unwrap().clone();
    println!("RESULT {}", json!({"schedules": e.schedules, "max_depth": e.max_depth, "distinct_event_traces": e.traces.len(), "walked_through_model": walked, "failed": e.failed, "capped": e.capped, "seconds": t.elapsed().as_secs_f64(), "findings": findings, "traces": traces, "binding_lost": lost, "binding_lost_samples": lost_samples}));
    0
}

/// child: replay the k-th of n slices of the (bounded) model traces for p partitions on the real code
pub fn child_guided(p: usize, bound: Option<usize>, k: usize, n: usize) -> i32 {
    install_quiet_hook();
    let params = Params::new(Method::Isna);
    let expected = prayer_times_dt_rng(&params, location(), &range(p as i64));
    let mut idx = 0usize;
    let mut replayed = 0u64;
    let mut bad = 0u64;
    let mut lost = 0u64;
    let mut lost_samples = vec![];
    let mut findings = vec![];
    model::traces(p, bound, |tr| {
        if idx % n == k {
            replayed += 1;
            match replay_trace(p, tr, &expected, &params) {
                Replayed::Conforms => {}
                Replayed::BindingLost(e) => {
                    lost += 1;
                    if lost_samples.len() < 2 {
                        lost_samples.push(json!({"trace": fmt_trace(tr), "what": e}));
                    }
                }
                Replayed::Violation(e) => {
                    bad += 1;
                    if findings.len() < 2 {
                        findings.push(json!({"clause": "schedule_from_model_trace_breaks_the_property", "case": {"mode": "guided", "partitions": p, "trace": fmt_trace(tr)}, "detail": {"error": e}}));
                    }
                }
            }
        }
        idx += 1;
    });
    println!("RESULT {}", json!({"replayed": replayed, "non_conforming": bad, "binding_lost": lost, "binding_lost_samples": lost_samples, "findings": findings}));
    0
}

pub fn replay(path: &str, std_bin: &str) -> i32 {
    install_quiet_hook();
    let doc: Value = serde_json::from_str(&std::fs::read_to_string(path).expect("read replay")).expect("json");
    let case = &doc["case"];
    println!("replaying C15 clause={} case={}", doc["clause"], case);
    match case["mode"].as_str().unwrap_or("") {
        "schedule" => {
            let c = &case["cfg"];
            let cfg = Cfg::from_json(c);
            let choices: Vec<usize> = serde_json::from_value(case["choices"].clone()).unwrap();
            let (log, ok, err) = run_choices(&cfg, &choices);
            println!("  events: {:?}\n  result_equals_sequential: {:?}\n  error: {:?}", fmt_trace(&log), ok, err);
            if ok == Some(true) {
                println!("NOT REPRODUCED property=C15 (the execution returned the sequential result{})", if err.is_some() { "; note: the recorded schedule no longer applies to this code" } else { "" });
                0
            } else {
                println!("REPRODUCED property=C15");
                1
            }
        }
        "guided" => {
            let p = case["partitions"].as_u64().unwrap() as usize;
            let names = ["spawn", "send", "recv", "disc", "droptx"];
            let trace: Vec<Event> = case["trace"].as_array().unwrap().iter().map(|s| {
                let s = s.as_str().unwrap();
                let (a, k) = s.split_once(':').unwrap();
                (a.parse().unwrap(), *names.iter().find(|n| **n == k).unwrap())
            }).collect();
            let params = Params::new(Method::Isna);
            let expected = prayer_times_dt_rng(&params, location(), &range(p as i64));
            match replay_trace(p, &trace, &expected, &params) {
                Replayed::Conforms => {
                    println!("NOT REPRODUCED property=C15 (trace conforms, result equals the sequential one)");
                    0
                }
                Replayed::BindingLost(e) => {
                    println!("NOT REPRODUCED property=C15 (result equals the sequential one; the code no longer follows this model trace: {})", e);
                    0
                }
                Replayed::Violation(e) => {
                    println!("REPRODUCED property=C15: {}", e);
                    1
                }
            }
        }
        "config" => {
            let st = std::process::Command::new(std_bin).args(["config", &case["w"].to_string(), &case["days"].to_string(), &case["threshold"].to_string(), &case["scenario"].as_u64().unwrap_or(0).to_string()]).status().expect("run std binary");
            st.code().unwrap_or(2)
        }
        _ => {
            println!("this finding has no single-execution replay (model-level); re-run ./run check C15 quick");
            2
        }
    }
}

pub fn main() {
    let a: Vec<String> = std::env::args().collect();
    let code = match a.get(1).map(|s| s.as_str()) {
        Some("check") => check(a.get(2).map(|s| s.as_str()).unwrap_or("quick"), a.get(3).map(|s| s.as_str()).unwrap_or("")),
        Some("replay") => replay(&a[2], a.get(3).map(|s| s.as_str()).unwrap_or("")),
        Some("child-cfg") => child_cfg(&a[2], a.get(3).map(|s| s == "traces").unwrap_or(false), a.get(4).and_then(|s| s.parse().ok())),
        Some("child-guided") => child_guided(a[2].parse().unwrap(), a[3].parse().ok(), a[4].parse().unwrap(), a[5].parse().unwrap()),
        _ => {
            eprintln!("usage: ipt-sched check <tier> <std-binary> | replay <file> <std-binary>");
            2
        }
    };
    std::process::exit(code);
}
