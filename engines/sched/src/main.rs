//! Engine S: schedule explorer for C15 (parallel range computation == sequential under every schedule).
//!
//! Built twice from the same source:
//!   --features shuttle : controlled scheduler (parts 1-4) and orchestration of the whole check
//!   --features std     : real OS threads, parallelism override only (part 5, invoked as subprocess)
//!
//! usage: ipt-sched check <quick|thorough> <path of the std-flavour binary>
//!        ipt-sched replay <file> <path of the std-flavour binary>
//!        ipt-sched sweep <quick|thorough>            (std flavour)
//!        ipt-sched config <w> <days> <threshold>     (std flavour: one configuration)

use chrono::NaiveDate;
use islamic_prayer_times::*;
use serde_json::{json, Value};
use std::collections::BTreeMap;

pub type RangeResult = BTreeMap<NaiveDate, BTreeMap<Prayer, Result<PrayerTime, ()>>>;

/// The data a range is computed for. Scenario 0 is what the schedule exploration uses; the others make
/// the *values* depend on where a block starts, so that a computation that carries state from one date
/// of a block to the next (and therefore differs between one long sequential run and per-block runs)
/// shows as parallel != sequential: a high-latitude site in the weeks where the fall-back rules start
/// to engage, and a range across the 1582 calendar seam.
pub static SCENARIO: std::sync::atomic::AtomicUsize = std::sync::atomic::AtomicUsize::new(0);
pub const SCENARIOS: [(&str, f64, f64, f64, (i32, u32, u32)); 4] = [
    ("39N 77W ISNA from 2024-02-27", 39.0, -77.0, -5.0, (2024, 2, 27)),
    ("52.52N 13.4E Mwl from 2023-04-20 (fall-backs engage from mid May)", 52.52, 13.4, 1.0, (2023, 4, 20)),
    ("39N 77W ISNA from 1582-09-20 (across 1582-10-15)", 39.0, -77.0, -5.0, (1582, 9, 20)),
    ("54.32S 68.3W Egyptian from 2023-10-01 (southern summer)", -54.32, -68.3, -3.0, (2023, 10, 1)),
];
fn scen() -> usize {
    SCENARIO.load(std::sync::atomic::Ordering::Relaxed)
}
pub fn scen_params() -> Params {
    Params::new([Method::Isna, Method::Mwl, Method::Isna, Method::Egyptian][scen()])
}
pub fn location() -> Location {
    let (_, lat, lon, gmt, _) = SCENARIOS[scen()];
    Location {
        coords: Coordinates::new(Latitude::try_from(lat).unwrap(), Longitude::try_from(lon).unwrap(), Elevation::try_from(0.).unwrap()),
        gmt: Gmt::try_from(gmt).unwrap(),
    }
}
pub fn start_date() -> NaiveDate {
    let (_, _, _, _, (y, m, d)) = SCENARIOS[scen()];
    NaiveDate::from_ymd_opt(y, m, d).unwrap()
}
pub fn range(days: i64) -> DateRange {
    let s = start_date();
    DateRange::from(s..=(s + chrono::Duration::days(days - 1)))
}
pub fn verif_dir() -> String {
    std::env::var("IPT_VERIF_DIR").unwrap_or_else(|_| "/verif".to_string())
}

#[cfg(feature = "std")]
mod sweep {
    use super::*;
    use std::sync::atomic::{AtomicU64, Ordering};
    use std::sync::{Arc, Mutex};

    fn expected(all: &RangeResult, days: i64) -> RangeResult {
        let mut m = BTreeMap::new();
        let mut d = start_date();
        for _ in 0..days.max(0) {
            m.insert(d, all[&d].clone());
            d = d.succ_opt().unwrap();
        }
        m
    }

    pub fn one(w: usize, days: i64, threshold: usize, all: Option<&RangeResult>) -> Result<(), String> {
        let params = scen_params();
        let own;
        let all = match all {
            Some(a) => a,
            None => {
                own = prayer_times_dt_rng(&params, location(), &range(days.max(1)));
                &own
            }
        };
        ipt_verif_rt::set_parallelism(w);
        let got = prayer_times_dt_rng_block(&params, location(), &range(days), threshold);
        let want = expected(all, days);
        if got == want {
            Ok(())
        } else {
            let missing: Vec<String> = want.keys().filter(|d| !got.contains_key(d)).take(3).map(|d| d.to_string()).collect();
            let extra: Vec<String> = got.keys().filter(|d| !want.contains_key(d)).take(3).map(|d| d.to_string()).collect();
            Err(format!("parallel result differs from sequential: {} dates expected, {} returned; missing {:?} extra {:?}", want.len(), got.len(), missing, extra))
        }
    }

    pub fn run(tier: &str) -> i32 {
        let quick = tier == "quick";
        // watchdog: a configuration that does not return within 30 s is a termination violation
        let current: Arc<Mutex<Option<(usize, usize, i64, usize, std::time::Instant)>>> = Arc::new(Mutex::new(None));
        let cur2 = current.clone();
        std::thread::spawn(move || loop {
            std::thread::sleep(std::time::Duration::from_millis(200));
            if let Some((sc, w, d, t, at)) = *cur2.lock().unwrap() {
                if at.elapsed().as_secs() > 30 {
                    println!("{}", json!({"sweep_violation": {"scenario": sc, "w": w, "days": d, "threshold": t, "what": "no result after 30 s (termination)"}}));
                    std::process::exit(1);
                }
            }
        });
        let n = AtomicU64::new(0);
        let par = AtomicU64::new(0);
        let mut bad = vec![];
        let mut plans = vec![];
        for sc in 0..SCENARIOS.len() {
            SCENARIO.store(sc, Ordering::Relaxed);
            let (ws, days, thresholds): (Vec<usize>, Vec<i64>, Vec<usize>) = if sc == 0 {
                let ws = if quick { vec![1, 2, 3, 4, 5, 7, 8, 15, 16, 17, 31, 32, 33, 63, 64] } else { (1..=64).collect() };
                // negative: end before start by more than one day (still an empty range)
                let mut days: Vec<i64> = (-3..=130).collect();
                days.extend([365, 366, 1000, 6000]);
                (ws, days, vec![0, 1, 2, 7, 90, 365, 400])
            } else {
                let ws = if quick { vec![2, 3, 5, 8, 16] } else { vec![2, 3, 4, 5, 6, 7, 8, 9, 12, 16, 17, 32, 64] };
                let mut days: Vec<i64> = if quick { (1..=130).step_by(3).collect() } else { (1..=130).collect() };
                days.extend([200, 366]);
                (ws, days, vec![0, 7])
            };
            let max_days = *days.iter().max().unwrap();
            let all = prayer_times_dt_rng(&scen_params(), location(), &range(max_days));
            for &w in &ws {
                for &d in &days {
                    for &t in &thresholds {
                        *current.lock().unwrap() = Some((sc, w, d, t, std::time::Instant::now()));
                        n.fetch_add(1, Ordering::Relaxed);
                        // same decision as the code: which configurations actually take the parallel branch
                        if w > 1 && !((d.max(0) as usize) / w < t) {
                            par.fetch_add(1, Ordering::Relaxed);
                        }
                        if let Err(e) = one(w, d, t, Some(&all)) {
                            if bad.len() < 5 {
                                bad.push(json!({"scenario": sc, "w": w, "days": d, "threshold": t, "what": e}));
                            }
                        }
                    }
                }
            }
            plans.push(json!({"scenario": SCENARIOS[sc].0, "workers": ws, "days": if sc == 0 { json!("-3..=130 (<= 0: empty / reversed ranges), 365, 366, 1000, 6000") } else { json!(days) }, "thresholds": thresholds}));
        }
        *current.lock().unwrap() = None;
        println!("{}", json!({"sweep": {"configurations": n.load(Ordering::Relaxed), "took_parallel_branch": par.load(Ordering::Relaxed), "plans": plans, "violations": bad}}));
        if bad.is_empty() {
            0
        } else {
            1
        }
    }
}

#[cfg(feature = "std")]
fn main() {
    let a: Vec<String> = std::env::args().collect();
    match a.get(1).map(|s| s.as_str()) {
        Some("sweep") => std::process::exit(sweep::run(a.get(2).map(|s| s.as_str()).unwrap_or("quick"))),
        Some("config") => {
            let (w, d, t) = (a[2].parse().unwrap(), a[3].parse().unwrap(), a[4].parse().unwrap());
            SCENARIO.store(a.get(5).and_then(|s| s.parse().ok()).unwrap_or(0), std::sync::atomic::Ordering::Relaxed);
            // run with a watchdog so a non-terminating configuration is reported, not waited for
            let h = std::thread::spawn(move || sweep::one(w, d, t, None));
            let t0 = std::time::Instant::now();
            while !h.is_finished() && t0.elapsed().as_secs() < 30 {
                std::thread::sleep(std::time::Duration::from_millis(50));
            }
            if !h.is_finished() {
                println!("REPRODUCED: no result after 30 s");
                std::process::exit(1);
            }
            match h.join().unwrap() {
                Ok(()) => {
                    println!("configuration w={} days={} threshold={} ({}): parallel == sequential", w, d, t, SCENARIOS[SCENARIO.load(std::sync::atomic::Ordering::Relaxed)].0);
                    std::process::exit(0)
                }
                Err(e) => {
                    println!("REPRODUCED: {}", e);
                    std::process::exit(1)
                }
            }
        }
        _ => {
            eprintln!("std flavour: ipt-sched sweep <tier> | config <w> <days> <threshold> [scenario]");
            std::process::exit(2)
        }
    }
}

#[cfg(feature = "shuttle")]
mod model;
#[cfg(feature = "shuttle")]
mod explore;

#[cfg(feature = "shuttle")]
fn main() {
    explore::main();
}

#[cfg(not(any(feature = "std", feature = "shuttle")))]
fn main() {
    eprintln!("build with --features shuttle or --features std");
    std::process::exit(2);
}

#[allow(dead_code)]
fn _unused(_: Value) {}
