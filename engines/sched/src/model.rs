//! Explicit-state protocol model of `prayer_times_dt_rng_block`'s parallel branch, written against
//! `stateright::Model`. One transition function feeds (a) stateright's checker, (b) the complete /
//! preemption-bounded trace enumerators whose traces are replayed on the real code, and (c) the
//! walker that checks every trace recorded from the real code is a model behaviour.
//!
//! Actors: 0 = main (caller), 1 = collector, 2+i = worker i (one per partition).
//! Main:      spawn collector; spawn worker 0..P-1 (each with a clone of tx); drop tx; (join)
//! Worker i:  send partition i; drop its tx clone
//! Collector: recv until the channel is empty and every sender is gone (disconnect)

use stateright::{Model, Property};

pub type Event = (usize, &'static str);

#[derive(Clone, Debug, Hash, PartialEq, Eq)]
pub struct St {
    /// main's program counter: 0 nothing spawned, 1 collector spawned, 1+k workers 0..k spawned, P+2 tx dropped
    pub mpc: usize,
    /// per worker: 0 not yet sent, 1 sent, 2 sender dropped
    pub ws: Vec<u8>,
    /// FIFO channel contents (partition numbers)
    pub q: Vec<usize>,
    /// collector saw the disconnect and finished
    pub cdone: bool,
    /// partitions merged by the collector (sorted)
    pub merged: Vec<usize>,
}

#[derive(Clone, Debug, PartialEq, Eq, Hash)]
pub enum Act {
    Main,
    Send(usize),
    Drop(usize),
    Recv,
    Disc,
}

pub struct Proto {
    pub p: usize,
}

impl Proto {
    pub fn init(&self) -> St {
        St { mpc: 0, ws: vec![0; self.p], q: vec![], cdone: false, merged: vec![] }
    }
    pub fn live_senders(&self, s: &St) -> usize {
        (if s.mpc < self.p + 2 { 1 } else { 0 }) + (0..self.p).filter(|&i| s.mpc >= i + 2 && s.ws[i] != 2).count()
    }
    pub fn enabled(&self, s: &St) -> Vec<Act> {
        let mut out = vec![];
        self.actions(s, &mut out);
        out
    }
    pub fn event(&self, s: &St, a: &Act) -> Event {
        match a {
            Act::Main => (0, if s.mpc < self.p + 1 { "spawn" } else { "droptx" }),
            Act::Send(i) => (2 + i, "send"),
            Act::Drop(i) => (2 + i, "droptx"),
            Act::Recv => (1, "recv"),
            Act::Disc => (1, "disc"),
        }
    }
    pub fn actor(a: &Act) -> usize {
        match a {
            Act::Main => 0,
            Act::Send(i) | Act::Drop(i) => 2 + i,
            Act::Recv | Act::Disc => 1,
        }
    }
    pub fn terminal_ok(&self, s: &St) -> bool {
        s.cdone && s.mpc == self.p + 2 && s.ws.iter().all(|w| *w == 2) && s.q.is_empty() && s.merged.len() == self.p
    }
    /// the action that produces event `e` in state `s`, if enabled
    pub fn action_for(&self, s: &St, e: Event) -> Option<Act> {
        self.enabled(s).into_iter().find(|a| self.event(s, a) == e)
    }
}

impl Model for Proto {
    type State = St;
    type Action = Act;
    fn init_states(&self) -> Vec<St> {
        vec![self.init()]
    }
    fn actions(&self, s: &St, out: &mut Vec<Act>) {
        let p = self.p;
        if s.mpc < p + 2 {
            out.push(Act::Main);
        }
        for i in 0..p {
            let spawned = s.mpc >= i + 2;
            if spawned && s.ws[i] == 0 {
                out.push(Act::Send(i));
            } else if spawned && s.ws[i] == 1 {
                out.push(Act::Drop(i));
            }
        }
        if s.mpc >= 1 && !s.cdone {
            if !s.q.is_empty() {
                out.push(Act::Recv);
            } else if self.live_senders(s) == 0 {
                out.push(Act::Disc);
            }
        }
    }
    fn next_state(&self, s: &St, a: Act) -> Option<St> {
        let mut n = s.clone();
        match a {
            Act::Main => n.mpc += 1,
            Act::Send(i) => {
                n.ws[i] = 1;
                n.q.push(i);
            }
            Act::Drop(i) => n.ws[i] = 2,
            Act::Recv => {
                let m = n.q.remove(0);
                n.merged.push(m);
                n.merged.sort();
            }
            Act::Disc => n.cdone = true,
        }
        Some(n)
    }
    fn properties(&self) -> Vec<Property<Self>> {
        vec![
            Property::always("merged has no duplicate and no foreign partition", |m: &Proto, s: &St| {
                let mut x = s.merged.clone();
                x.dedup();
                x.len() == s.merged.len() && s.merged.iter().all(|i| *i < m.p)
            }),
            Property::always("collector done => every partition merged, channel empty", |m: &Proto, s: &St| !s.cdone || (s.merged.len() == m.p && s.q.is_empty())),
            Property::eventually("terminates with the complete result (no deadlock, no lost wake-up)", |m: &Proto, s: &St| m.terminal_ok(s)),
            Property::sometimes("a complete run exists", |m: &Proto, s: &St| m.terminal_ok(s)),
        ]
    }
}

/// all complete traces (event sequences) of the model, optionally bounded in preemptions:
/// a preemption = the next action belongs to another actor although the previous actor still has one enabled
pub fn traces(p: usize, bound: Option<usize>, mut f: impl FnMut(&[Event])) -> u64 {
    let m = Proto { p };
    fn go(m: &Proto, s: &St, last: Option<usize>, used: usize, bound: Option<usize>, cur: &mut Vec<Event>, n: &mut u64, f: &mut dyn FnMut(&[Event])) {
        let en = m.enabled(s);
        if en.is_empty() {
            assert!(m.terminal_ok(s), "model deadlock at {:?}", s);
            *n += 1;
            f(cur);
            return;
        }
        let last_enabled = last.map(|l| en.iter().any(|a| Proto::actor(a) == l)).unwrap_or(false);
        for a in en {
            let actor = Proto::actor(&a);
            let cost = if last_enabled && Some(actor) != last { 1 } else { 0 };
            if let Some(b) = bound {
                if used + cost > b {
                    continue;
                }
            }
            cur.push(m.event(s, &a));
            let ns = m.next_state(s, a).unwrap();
            go(m, &ns, Some(actor), used + cost, bound, cur, n, f);
            cur.pop();
        }
    }
    let mut n = 0;
    go(&m, &m.init(), None, 0, bound, &mut vec![], &mut n, &mut f);
    n
}

/// walk a recorded event trace through the model; Err = the code did something the model forbids
pub fn walk(p: usize, trace: &[Event]) -> Result<(), String> {
    let m = Proto { p };
    let mut s = m.init();
    for (i, e) in trace.iter().enumerate() {
        match m.action_for(&s, *e) {
            Some(a) => s = m.next_state(&s, a).unwrap(),
            None => return Err(format!("event #{} {:?} is not enabled in model state {:?}", i, e, s)),
        }
    }
    if m.terminal_ok(&s) {
        Ok(())
    } else {
        Err(format!("trace ends in non-terminal model state {:?}", s))
    }
}
