fn main() {
    println!("cargo:rustc-cfg=ipt_verif_rt");
    println!("cargo:rustc-check-cfg=cfg(ipt_verif_rt)");
    println!("cargo:rerun-if-changed=build.rs");
}
