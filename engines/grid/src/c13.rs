//! C13 Prayer times vary smoothly from one day to the next (histories of three consecutive dates).
use crate::common::*;
use chrono::NaiveDate;
use islamic_prayer_times::*;
use serde_json::{json, Value};

pub fn bound(pr: Prayer, lat: f64) -> Option<i64> {
    use Prayer::*;
    let a = lat.abs();
    match pr {
        Dhuhr => Some(5),
        Shurooq | Maghrib => Some(8),
        Asr if (25.0..=45.0).contains(&a) => Some(8),
        Fajr | Isha if a <= 40.0 => Some(12),
        _ => None,
    }
}
pub const MAX_STEP_S: i64 = 240;

pub fn judge_triple(ctx: &Ctx, l: &mut Local, p: &Params, site: Site, mid: NaiveDate, a: &R, b: &R, c: &R) {
    for pr in SIX {
        let Some(bd) = bound(pr, site.lat) else { continue };
        let (Some(x), Some(y), Some(z)) = (secs(a, pr), secs(b, pr), secs(c, pr)) else { continue };
        let d1 = cyc(y - x);
        let d2 = cyc(z - y);
        let sd = d2 - d1;
        let name = match pr {
            Prayer::Dhuhr => "second_difference_dhuhr_s",
            Prayer::Shurooq | Prayer::Maghrib => "second_difference_rise_set_s",
            Prayer::Asr => "second_difference_asr_s",
            _ => "second_difference_fajr_isha_s",
        };
        l.margin(name, sd as f64);
        l.margin("day_to_day_change_s", d2 as f64);
        if sd.abs() > bd || d2.abs() >= MAX_STEP_S || d1.abs() >= MAX_STEP_S {
            let case = PtCase::new(p, site, mid).with_extra(json!({"triple_middle_date": date_json(mid)}));
            ctx.violation(
                if sd.abs() > bd { "second_difference" } else { "day_to_day_change" },
                &format!("{:?}_{}", pr, case.key()),
                case.to_value(),
                json!({"prayer": format!("{:?}", pr), "times": [fmt_r(a)[format!("{:?}", pr)].clone(), fmt_r(b)[format!("{:?}", pr)].clone(), fmt_r(c)[format!("{:?}", pr)].clone()], "first_differences_s": [d1, d2], "second_difference_s": sd, "bound_s": bd}),
            );
        }
    }
    l.nontrivial += 1;
}

pub fn walk(ctx: &Ctx, l: &mut Local, p: &Params, site: Site, dates: &[NaiveDate]) {
    let mut win: Vec<(NaiveDate, R)> = vec![];
    for &d in dates {
        // dates must be consecutive; restart the window on a gap
        if let Some((last, _)) = win.last() {
            if last.succ_opt() != Some(d) {
                win.clear();
            }
        }
        let r = pt(p, site.loc(), d, None);
        l.evals += 1;
        win.push((d, r));
        if win.len() > 3 {
            win.remove(0);
        }
        if win.len() == 3 {
            judge_triple(ctx, l, p, site, win[1].0, &win[0].1, &win[1].1, &win[2].1);
            if ctx.want_sample() && win[1].0.format("%m-%d").to_string() == "03-20" {
                ctx.sample(json!({"site": site, "middle_date": date_json(win[1].0), "dhuhr": [fmt_r(&win[0].1)["Dhuhr"].clone(), fmt_r(&win[1].1)["Dhuhr"].clone(), fmt_r(&win[2].1)["Dhuhr"].clone()]}));
            }
        }
    }
}

pub fn explore(ctx: &Ctx) {
    // call sequences from non-initial states (see history.rs)
    crate::history::explore(ctx, "place_time", &crate::history::alphabet_place_time(), 3);
    let quick = ctx.tier == Tier::Quick;
    ctx.rule("every run of three consecutive dates of 1600-01-01..2399-12-31 is one case per (site, method); all are distinct; non-trivial = the triple was judged (all latitudes of the alphabet lie in the property's domain for at least Dhuhr/Shurooq/Maghrib)");
    ctx.assume("differences taken cyclically on whole (truncated) seconds; the stated bounds are applied to these observed values (measured worst cases 2/4/4/6 s leave room for the <2 s quantisation of a second difference)");
    let all = d_all();
    let lats = [0.0, 10.0, -10.0, 25.0, -25.0, 35.0, -35.0, 40.0, -40.0, 45.0, -45.0];
    let zs: Vec<(f64, f64)> = if quick { vec![(-77.2086, -5.0), (39.8233, 3.0), (151.2, 10.0), (0.0, 3.5)] } else { vec![(-180.0, -12.0), (-180.0, -8.5), (-135.0, -9.0), (-77.2086, -5.0), (-77.2086, -1.5), (-45.0, -3.0), (0.0, 0.0), (0.0, 3.5), (7.5, 0.5), (39.8233, 3.0), (82.5, 5.5), (90.0, 2.5), (135.0, 9.0), (151.2, 10.0), (180.0, 12.0), (180.0, 8.5)] };
    let methods: Vec<Method> = if quick { vec![Method::Mwl, Method::Hanafi] } else { ANGLE6.to_vec() };
    let mut jobs = vec![];
    let mut n = 0;
    for &lat in &lats {
        for &(lon, gmt) in &zs {
            for &m in &methods {
                n += 1;
                if quick && n % 2 != 0 {
                    continue;
                }
                jobs.push((Site::new(lat, lon, 0.0, gmt), params_conv(m)));
            }
        }
    }
    ctx.alphabet("lats", json!(lats));
    ctx.alphabet("zones", json!(zs));
    ctx.alphabet("methods", json!(methods.iter().map(|m| format!("{:?}", m)).collect::<Vec<_>>()));
    ctx.alphabet("jobs_site_x_method", json!(jobs.len()));
    ctx.alphabet("dates", json!({"range": "1600-01-01..2399-12-31", "triples_per_job": all.len() - 2}));
    par_jobs(ctx, &jobs, |(site, p), l| {
        walk(ctx, l, p, *site, &all);
    });
}

pub fn replay(ctx: &Ctx, _clause: &str, case: &Value) {
    let c: PtCase = serde_json::from_value::<PtCase>(case.clone()).map(PtCase::fix).expect("case");
    let mut l = Local::default();
    let ds = [c.date.pred_opt().unwrap(), c.date, c.date.succ_opt().unwrap()];
    walk(ctx, &mut l, &c.params, c.site, &ds);
}
