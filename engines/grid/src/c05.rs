//! C05 The daily schedule is complete and chronologically ordered.
use crate::common::*;
use chrono::NaiveDate;
use islamic_prayer_times::*;
use serde_json::{json, Value};

pub const ROUNDINGS: [RoundSeconds; 4] = [RoundSeconds::None, RoundSeconds::NormalRounding, RoundSeconds::SpecialRounding, RoundSeconds::AggressiveRounding];

/// `p` must have policy None. Judges the unrounded schedule and, if `roundings`, the three rounded ones.
pub fn judge(ctx: &Ctx, l: &mut Local, p: &Params, site: Site, date: NaiveDate, roundings: bool) {
    let mut p0 = p.clone();
    p0.round_seconds = RoundSeconds::None;
    let r0 = pt(&p0, site.loc(), date, None);
    l.evals += 1;
    let modes: &[RoundSeconds] = if roundings { &ROUNDINGS } else { &ROUNDINGS[..1] };
    for &mode in modes {
        let mut pm = p.clone();
        pm.round_seconds = mode;
        let r = if mode == RoundSeconds::None { r0.clone() } else { l.evals += 1; pt(&pm, site.loc(), date, None) };
        let case = || PtCase::new(&pm, site, date);
        if r.len() != 7 || SEQ7.iter().any(|k| !r.contains_key(k)) {
            ctx.violation("exactly_seven_entries", &case().key(), case().to_value(), json!({"result": fmt_r(&r)}));
            continue;
        }
        if SEQ7.iter().any(|k| flag(&r, *k) == Some(true)) {
            ctx.violation("nothing_flagged_extreme_without_policy", &case().key(), case().to_value(), json!({"result": fmt_r(&r)}));
        }
        let (Some(sd0), Some(sd)) = (secs(&r0, Prayer::Dhuhr), secs(&r, Prayer::Dhuhr)) else {
            ctx.violation("dhuhr_reported", &case().key(), case().to_value(), json!({"result": fmt_r(&r)}));
            continue;
        };
        // offsets from Dhuhr: unrounded offset plus the (small, cyclic) rounding moves
        let mut offs: Vec<(Prayer, i64)> = vec![];
        let dd = cyc(sd - sd0);
        for k in SEQ7 {
            match (secs(&r0, k), secs(&r, k)) {
                (Some(a), Some(b)) => {
                    let o0 = cyc(a - sd0);
                    offs.push((k, o0 + cyc(b - a) - dd));
                }
                (None, None) => {}
                _ => {
                    ctx.violation("rounding_changes_validity", &case().key(), case().to_value(), json!({"unrounded": fmt_r(&r0), "rounded": fmt_r(&r)}));
                }
            }
        }
        if offs.len() == 7 {
            l.nontrivial += 1;
        }
        let mut bad = None;
        for w in offs.windows(2) {
            let ((pa, oa), (pb, ob)) = (w[0], w[1]);
            let ok = if pa == Prayer::Imsaak { oa <= ob } else { oa < ob };
            if !ok {
                bad = Some(format!("{:?} !< {:?}", pa, pb));
            }
        }
        for (k, o) in &offs {
            let lim = if mode == RoundSeconds::None { o.abs() < 43200 } else { o.abs() <= 43200 };
            if !lim {
                bad = Some(format!("{:?} not within 12 h of Dhuhr", k));
            }
            let side = match k {
                Prayer::Imsaak | Prayer::Fajr | Prayer::Shurooq => *o < 0,
                Prayer::Dhuhr => *o == 0,
                _ => *o > 0,
            };
            if !side {
                bad = Some(format!("{:?} on the wrong side of Dhuhr", k));
            }
        }
        if let Some(b) = bad {
            ctx.violation("chronological_order", &case().key(), case().to_value(), json!({"what": b, "offsets_from_dhuhr_s": offs.iter().map(|(k, o)| (format!("{:?}", k), *o)).collect::<Vec<_>>(), "result": fmt_r(&r)}));
        }
        if ctx.want_sample() && date == ymd(2023, 12, 31) && mode == RoundSeconds::SpecialRounding {
            ctx.sample(json!({"site": site, "date": date_json(date), "mode": format!("{:?}", mode), "result": fmt_r(&r)}));
        }
    }
}

pub fn custom(m: Method, fa: f64, ia: f64) -> Params {
    let mut p = params_conv(m);
    if p.intervals[&Prayer::Fajr] == 0.0 {
        p.angles.insert(Prayer::Fajr, fa);
    }
    if p.intervals[&Prayer::Isha] == 0.0 {
        p.angles.insert(Prayer::Isha, ia);
    }
    p
}

pub fn explore(ctx: &Ctx) {
    // call sequences from non-initial states (see history.rs)
    if ctx.tier == Tier::Thorough {
        crate::history::explore(ctx, "policy_full", &crate::history::alphabet_policy_full(), 2);
    }
    crate::history::explore(ctx, "policy", &crate::history::alphabet_policy(), 2);
    let quick = ctx.tier == Tier::Quick;
    ctx.rule("every (site, date, params, rounding) enumerated once; non-trivial = all seven entries exist and the full order chain was judged");
    ctx.assume("order measured as signed cyclic offset from the same call's Dhuhr; under a rounding mode the offset is the unrounded offset plus the rounding moves and 'within 12 h' is non-strict (DESIGN C05)");
    ctx.assume("policy None throughout (conventional computation)");
    let all = d_all();
    let lats = [0.0, 30.0, -30.0, 45.0, -45.0, 55.0, -55.0, 60.0, -60.0];
    let zs: Vec<(f64, f64)> = if false { vec![(-77.2086, -5.0), (39.8233, 3.0), (180.0, 12.0)] } else { vec![(-180.0, -12.0), (-77.2086, -5.0), (0.0, 0.0), (39.8233, 3.0), (82.5, 5.5), (180.0, 12.0)] };
    let mut sites = vec![];
    for &lat in &lats {
        for &(lon, gmt) in &zs {
            sites.push(Site::new(lat, lon, 0.0, gmt));
        }
    }
    for (lat, lon, gmt) in [(30.0, 0.0, 9.0), (-45.0, 120.0, -4.0), (55.0, -60.0, 6.0), (-15.0, -150.0, 2.0), (60.0, 30.0, -10.0)] {
        sites.push(Site::new(lat, lon, 0.0, gmt));
    }
    sites.extend(off_lattice_sites(quick, 60.0));
    // interval-defined Fajr/Isha whose (unused) twilight angle is set as well, where that angle is not
    // reached: the time is Shurooq - interval / Maghrib + interval all the same - valid, unflagged, in order
    let mut ji = vec![];
    for &lat in &[50.0, 55.0, -55.0, 60.0] {
        for &ang in &[9.0, 18.0, 21.0] {
            for m in [Method::UmmAlQurra, Method::FixedIsha] {
                let mut p = params_conv(m);
                p.angles.insert(Prayer::Isha, ang);
                ji.push((Site::new(lat, 25.0, 0.0, 2.0), p));
            }
            let mut p = params_conv(Method::Mwl);
            p.intervals.insert(Prayer::Fajr, 75.0);
            p.angles.insert(Prayer::Fajr, ang);
            ji.push((Site::new(lat, 25.0, 0.0, 2.0), p));
        }
    }
    let yi = dates_of_years(if quick { &[2023] } else { &[1600, 2023, 2024, 2399] });
    ctx.alphabet("interval_methods_with_their_unused_angle_set", json!({"jobs": ji.len(), "angles": [9, 18, 21], "lats": [50, 55, -55, 60], "dates": yi.len()}));
    par_jobs(ctx, &ji, |(site, p), l| {
        for &d in &yi {
            judge(ctx, l, p, *site, d, false);
        }
    });
    // the validity frontier of Fajr/Isha in the twilight angle, to the last bit (see common::angle_frontier)
    let fc = angle_frontier_cases(quick);
    ctx.alphabet("angle_frontier", json!({"site_dates": fc.len(), "prayers": ["Fajr", "Isha"], "exempt": "a time within 2 s of lower culmination (12 h from Dhuhr)"}));
    par_jobs(ctx, &fc, |(site, date), l| {
        for which in [Prayer::Fajr, Prayer::Isha] {
            let Some(ps) = angle_frontier(*site, *date, which) else { continue };
            l.count("angle_frontiers_located", 1);
            for p in &ps {
                let r = pt(p, site.loc(), *date, None);
                if [Prayer::Fajr, Prayer::Isha, Prayer::Imsaak].iter().any(|k| off(&r, *k).map(|o| o.abs() >= 43198).unwrap_or(false)) {
                    l.count("frontier_probe_at_lower_culmination_exempt", 1);
                    continue;
                }
                judge(ctx, l, p, *site, *date, false);
            }
        }
    });
    ctx.alphabet("part1", json!({"off_lattice_sites": off_lattice_sites(quick, 60.0), "far_zone_sites": 5, "sites": sites.len(), "lats": lats, "zones": zs, "method": "Mwl", "rounding": "None", "dates": all.len()}));
    let p1 = params_conv(Method::Mwl);
    par_jobs(ctx, &sites, |site, l| {
        for &d in &all {
            judge(ctx, l, &p1, *site, d, false);
        }
    });
    let yd = dates_of_years(if quick { &[2000, 2023, 2024] } else { &YEARS6 });
    let mut jobs = vec![];
    for s in sites.iter().step_by(if quick { 3 } else { 1 }) {
        for m in NAMED8 {
            jobs.push((*s, params_conv(m)));
        }
        for fa in [9.0, 15.0, 21.0] {
            for ia in [9.0, 15.0, 21.0] {
                jobs.push((*s, custom(Method::Mwl, fa, ia)));
            }
        }
    }
    ctx.alphabet("part2", json!({"jobs_site_x_params": jobs.len(), "methods": "NAMED8 + custom Fajr/Isha angles {9,15,21}^2", "roundings": 4, "dates": yd.len()}));
    par_jobs(ctx, &jobs, |(site, p), l| {
        for &d in &yd {
            judge(ctx, l, p, *site, d, true);
        }
    });
}

pub fn replay(ctx: &Ctx, _clause: &str, case: &Value) {
    let c: PtCase = serde_json::from_value::<PtCase>(case.clone()).map(PtCase::fix).expect("case");
    let mut l = Local::default();
    judge(ctx, &mut l, &c.params, c.site, c.date, true);
    println!("  result: {}", fmt_r(&c.run()));
}
