//! C01 Dhuhr is the instant of local apparent solar noon.
use crate::common::*;
use crate::refm;
use chrono::NaiveDate;
use islamic_prayer_times::*;
use serde_json::{json, Value};

pub const TOL_S: f64 = 10.0;

/// judge one call; returns the hour angle in seconds of time
pub fn judge(ctx: &Ctx, l: &mut Local, p: &Params, site: Site, date: NaiveDate) {
    let r = pt(p, site.loc(), date, None);
    l.evals += 1;
    let case = || PtCase::new(p, site, date);
    if r.len() != 7 || SEQ7.iter().any(|k| !r.contains_key(k)) {
        ctx.violation("seven_entries", &case().key(), case().to_value(), json!({"result": fmt_r(&r)}));
    }
    let Some(s) = secs(&r, Prayer::Dhuhr) else {
        ctx.violation("dhuhr_always_reported", &case().key(), case().to_value(), json!({"result": fmt_r(&r)}));
        return;
    };
    let jd = refm::jd_of(date, s as f64 + 0.5, site.gmt);
    let ha_s = refm::hour_angle(jd, site.lon) * 240.0;
    l.nontrivial += 1;
    l.margin("dhuhr_hour_angle_s", ha_s);
    if ha_s.abs() > TOL_S {
        ctx.violation(
            "dhuhr_hour_angle",
            &case().key(),
            case().to_value(),
            json!({"dhuhr": fmt_r(&r)["Dhuhr"], "ref_hour_angle_seconds": ha_s, "tolerance_s": TOL_S}),
        );
    }
    // RA wrap bookkeeping (reference RA at local midnight of day-1, day, day+1)
    let j0 = refm::jd0(date) - site.gmt / 24.0;
    let (a, b, c) = (refm::sun(j0 - 1.0).ra, refm::sun(j0).ra, refm::sun(j0 + 1.0).ra);
    if (a > 350.0 && b < 10.0) || (b > 350.0 && c < 10.0) {
        l.count("cases_on_ra_wrap_days", 1);
        l.margin("dhuhr_hour_angle_s_on_ra_wrap_days", ha_s);
    }
    if ctx.want_sample() && date.format("%m-%d").to_string() == "03-20" {
        ctx.sample(json!({"site": site, "date": date_json(date), "dhuhr": fmt_r(&r)["Dhuhr"], "ref_hour_angle_seconds": ha_s}));
    }
}

pub fn explore(ctx: &Ctx) {
    // call sequences from non-initial states (see history.rs)
    crate::history::explore(ctx, "place_time", &crate::history::alphabet_place_time(), 3);
    let quick = ctx.tier == Tier::Quick;
    ctx.rule("every (site, date, params) triple is enumerated once (distinct by construction); it is non-trivial when Dhuhr was reported and its instant was judged against the reference ephemeris; cases on the yearly RA 360->0 wrap days are counted separately in counters");
    ctx.assume("reference ephemeris: Meeus ch.25 low-accuracy Sun + equation of time (self-tested against Meeus examples 25.a/28.a); Delta-T ignored on both sides (<= 2 s)");
    ctx.assume("GMT offset within 6 h of longitude/15, as the property states");
    ctx.assume("real-valued dimensions (lat, lon, gmt, elevation) covered on the stated lattice only");
    let all = d_all();
    // part A: all dates x site lattice, policy None, one method
    let lats = [-90.0, -45.0, 0.0, 45.0, 90.0];
    let elevs = [-420.0, 0.0, 8848.0];
    let zs: Vec<(f64, f64)> = if quick {
        vec![(-180.0, -12.0), (-180.0, -6.0), (-77.2086, -5.0), (0.0, 0.0), (0.0, 6.0), (39.8233, 3.0), (82.5, 5.5), (151.2, 10.0), (180.0, 12.0), (180.0, 6.0)]
    } else {
        zones(15.0, &[-6.0, -3.0, 0.0, 3.0, 6.0])
    };
    let mut sites_a = vec![];
    let mut i = 0;
    for (zi, &(lon, gmt)) in zs.iter().enumerate() {
        for (li, &lat) in lats.iter().enumerate() {
            // quick: rotate latitudes over zones so that ~24 sites cover all 5 latitudes and all zones
            if quick && (zi + li) % 2 != 0 {
                continue;
            }
            sites_a.push(Site::new(lat, lon, elevs[i % 3], gmt));
            i += 1;
        }
    }
    sites_a.extend(off_lattice_sites(quick, 60.0));
    ctx.alphabet("A_sites", json!({"off_lattice_sites": off_lattice_sites(quick, 60.0), "count": sites_a.len(), "lats": lats, "zones_lon_gmt": zs.len(), "elevations": elevs}));
    ctx.alphabet("A_dates", json!({"range": "1600-01-01..2399-12-31", "count": all.len()}));
    let pa = params_conv(Method::Mwl);
    par_jobs(ctx, &sites_a, |site, l| {
        for &d in &all {
            judge(ctx, l, &pa, *site, d);
        }
    });
    // part B: all 9 methods with their default policy
    let lats_b: Vec<f64> = if quick { vec![-45.0, -30.0, 0.0, 30.0, 45.0] } else { vec![-60.0, -50.0, -30.0, 0.0, 30.0, 50.0, 60.0] };
    let zs_b = [(-77.2086, -5.0), (39.8233, 3.0), (151.2, 10.0), (-180.0, -12.0)];
    let dates_b = if quick { d_seam(1600, 2399) } else { all.clone() };
    let mut jobs_b = vec![];
    for (i, &lat) in lats_b.iter().enumerate() {
        for (j, &(lon, gmt)) in zs_b.iter().enumerate() {
            if quick && (i + j) % 2 != 0 {
                continue;
            }
            for m in METHODS9 {
                jobs_b.push((Site::new(lat, lon, 0.0, gmt), m));
            }
        }
    }
    ctx.alphabet("B_sites_x_methods", json!({"count": jobs_b.len(), "lats": lats_b, "zones": zs_b, "methods": 9, "policy": "each method's default (nearest good day, Fajr/Isha invalid)", "dates": dates_b.len()}));
    let seam_b = d_seam(1600, 2399);
    par_jobs(ctx, &jobs_b, |(site, m), l| {
        let mut p = Params::new(*m);
        p.round_seconds = RoundSeconds::None;
        // at |lat| >= 60 every summer day triggers a nearest-good-day search: seam dates only there
        let ds = if site.lat.abs() >= 60.0 { &seam_b } else { &dates_b };
        for &d in ds.iter() {
            judge(ctx, l, &p, *site, d);
        }
    });
    // part C: polar and circle sites with the default policy (expensive searches): selected years
    let years: Vec<i32> = if quick { vec![2024] } else { YEARS6.to_vec() };
    let dates_c = dates_of_years(&years);
    let mut jobs_c = vec![];
    for lat in if quick { vec![-90.0, 66.56, 90.0] } else { vec![-90.0, -80.0, -66.56, 66.56, 80.0, 90.0] } {
        for m in if quick { vec![Method::Mwl] } else { METHODS9.to_vec() } {
            jobs_c.push((Site::new(lat, 25.0, 0.0, 2.0), m));
        }
    }
    ctx.alphabet("C_polar", json!({"jobs": jobs_c.len(), "years": years, "policy": "default"}));
    par_jobs(ctx, &jobs_c, |(site, m), l| {
        let mut p = Params::new(*m);
        p.round_seconds = RoundSeconds::None;
        for &d in &dates_c {
            judge(ctx, l, &p, *site, d);
        }
    });
}

pub fn replay(ctx: &Ctx, _clause: &str, case: &Value) {
    let c: PtCase = serde_json::from_value::<PtCase>(case.clone()).map(PtCase::fix).expect("case");
    let mut l = Local::default();
    judge(ctx, &mut l, &c.params, c.site, c.date);
    println!("  result: {}", fmt_r(&c.run()));
    println!("  ref hour angle at Dhuhr (s): {:?}", l.margins.get("dhuhr_hour_angle_s"));
}
