//! C16 Qibla is the great-circle bearing to the Kaaba.
use crate::common::*;
use islamic_prayer_times::*;
use serde_json::{json, Value};

pub const KAABA_LAT: f64 = 21.423333;
pub const KAABA_LON: f64 = 39.823333;
pub const TOL: f64 = 1e-6;

fn unit(lat: f64, lon: f64) -> [f64; 3] {
    let (p, l) = (lat.to_radians(), lon.to_radians());
    [p.cos() * l.cos(), p.cos() * l.sin(), p.sin()]
}
fn dot(a: [f64; 3], b: [f64; 3]) -> f64 {
    a[0] * b[0] + a[1] * b[1] + a[2] * b[2]
}
/// independent 3-D computation: degrees counter-clockwise (west) of true north, in (-180, 180]
pub fn reference(lat: f64, lon: f64) -> f64 {
    let k = unit(KAABA_LAT, KAABA_LON);
    let (p, l) = (lat.to_radians(), lon.to_radians());
    let north = [-p.sin() * l.cos(), -p.sin() * l.sin(), p.cos()];
    let east = [-l.sin(), l.cos(), 0.0];
    let cw = dot(k, east).atan2(dot(k, north)).to_degrees();
    let ccw = -cw;
    if ccw <= -180.0 {
        ccw + 360.0
    } else {
        ccw
    }
}
/// angular distance (deg) to the Kaaba
pub fn dist_kaaba(lat: f64, lon: f64) -> f64 {
    dot(unit(lat, lon), unit(KAABA_LAT, KAABA_LON)).clamp(-1.0, 1.0).acos().to_degrees()
}

pub const ELEVS: [f64; 3] = [-420.0, 0.0, 8848.0];

pub fn judge(ctx: &Ctx, l: &mut Local, lat: f64, lon: f64) {
    let case = json!({"lat": lat, "lon": lon});
    let key = format!("lat{}_lon{}", lat, lon);
    let mk = |e: f64| Coordinates::new(Latitude::try_from(lat).unwrap(), Longitude::try_from(lon).unwrap(), Elevation::try_from(e).unwrap());
    let q = lib(|| case.clone(), || Qibla::new(mk(0.0)));
    l.evals += 1;
    let d = q.degrees();
    let dk = dist_kaaba(lat, lon);
    let exempt = dk < 0.1 || dk > 179.9;
    if !(d > -180.0 && d <= 180.0) {
        ctx.violation("range", &key, case.clone(), json!({"degrees": d, "required": "(-180, 180]"}));
    }
    if !exempt {
        let want = reference(lat, lon);
        let mut diff = (d - want) % 360.0;
        if diff > 180.0 {
            diff -= 360.0;
        }
        if diff < -180.0 {
            diff += 360.0;
        }
        l.margin("bearing_difference_deg", diff);
        l.nontrivial += 1;
        if !(diff.abs() <= TOL) {
            ctx.violation("great_circle_bearing", &key, case.clone(), json!({"degrees": d, "reference": want, "difference": diff, "tolerance": TOL}));
        }
    } else {
        l.count("exempt_near_kaaba_or_antipode", 1);
    }
    let label = if d < 0.0 { "CW" } else { "CCW" };
    let rot = match q.rotation() {
        Rotation::Cw => "CW",
        Rotation::Ccw => "CCW",
    };
    let text = q.to_string();
    // the printed text: layout is free, but it must carry the rotation label as a word and the magnitude
    // (checked at the precision it is printed with)
    let has_label = text.split(|c: char| !c.is_ascii_alphabetic()).any(|w| w == label);
    let other = if label == "CW" { "CCW" } else { "CW" };
    let has_other = text.split(|c: char| !c.is_ascii_alphabetic()).any(|w| w == other);
    let num: String = text.chars().skip_while(|c| !c.is_ascii_digit()).take_while(|c| c.is_ascii_digit() || *c == '.').collect();
    let decimals = num.split('.').nth(1).map(|f| f.len()).unwrap_or(0) as i32;
    let mag_ok = num.parse::<f64>().map(|v| (v - d.abs()).abs() <= 0.5 * 10f64.powi(-decimals) + 1e-9).unwrap_or(false);
    if rot != label || !has_label || has_other || !mag_ok {
        ctx.violation("label_and_text_agree_with_sign_and_magnitude", &key, case.clone(), json!({"degrees": d, "rotation": rot, "expected_label": label, "text": text}));
    }
    for e in ELEVS {
        let qe = lib(|| case.clone(), || Qibla::new(mk(e)));
        l.evals += 1;
        if qe.degrees().to_bits() != d.to_bits() || qe.to_string() != text {
            ctx.violation("independent_of_elevation", &format!("{}_el{}", key, e), json!({"lat": lat, "lon": lon, "elevation": e}), json!({"at_0m": d, "at_elevation": qe.degrees()}));
        }
    }
    if ctx.want_sample() && (lat - 40.1).abs() < 0.2 && (lon == -75.0 || lon == 116.5) {
        ctx.sample(json!({"lat": lat, "lon": lon, "degrees": d, "text": text, "reference": reference(lat, lon)}));
    }
}

pub fn explore(ctx: &Ctx) {
    let quick = ctx.tier == Tier::Quick;
    ctx.rule("every grid point (lat, lon) and every point of the special lines is one case (4 constructions: elevation 0 plus three elevations); non-trivial = not within 0.1 deg of the Kaaba or its antipode, i.e. judged against the 3-D vector bearing");
    ctx.assume("reference uses the library's Kaaba constants 21.423333 N, 39.823333 E (the property's 21.4233/39.8233 rounded to 6 decimals) so that 1e-6 deg is meaningful");
    ctx.assume("spherical Earth, as the property's 'great circle' states");
    let step = if quick { 0.25 } else { 0.125 };
    let nlat = (179.5 / step) as i64;
    let lat_rows: Vec<f64> = (0..=nlat).map(|i| -89.75 + i as f64 * step).collect();
    assert!(*lat_rows.last().unwrap() <= 89.75 + 1e-9);
    ctx.alphabet("grid", json!({"lat": format!("-89.75..89.75 step {}", step), "lon": format!("-180..180 step {}", step), "rows": lat_rows.len()}));
    par_jobs(ctx, &lat_rows, |lat, l| {
        let n = (360.0 / step) as i64;
        for j in 0..=n {
            judge(ctx, l, *lat, -180.0 + j as f64 * step);
        }
    });
    // special meridians and parallels at 0.05 deg
    let anti = KAABA_LON - 180.0;
    let mut merid = vec![KAABA_LON, anti, 180.0, -180.0, 0.0, KAABA_LON + 1e-9, anti - 1e-9, anti + 1e-9];
    // geometric approach to the two meridians on which the bearing is exactly 0 / 180 and to the date line:
    // +-1 x 10^-k and +-3 x 10^-k degrees, k = 2..=12 (a shortcut or tolerance band around them has some width)
    for k in 2..=12 {
        for f in [1.0, 3.0] {
            let e = f * 10f64.powi(-k);
            merid.extend([KAABA_LON + e, KAABA_LON - e, anti + e, anti - e, 180.0 - e, -180.0 + e, e, -e]);
        }
    }
    let paral = [KAABA_LAT, -KAABA_LAT, 0.0, 89.999, -89.999, 89.9999999, -89.9999999];
    ctx.alphabet("special_lines", json!({"meridians": merid, "parallels": paral, "step": 0.05}));
    let mut lines: Vec<(bool, f64)> = merid.iter().map(|m| (true, *m)).collect();
    lines.extend(paral.iter().map(|p| (false, *p)));
    par_jobs(ctx, &lines, |(is_merid, v), l| {
        if *is_merid {
            let mut i = -1799;
            while i <= 1799 {
                judge(ctx, l, i as f64 * 0.05, *v);
                i += 1;
            }
        } else {
            let mut i = -3600;
            while i <= 3600 {
                judge(ctx, l, *v, i as f64 * 0.05);
                i += 1;
            }
        }
    });
}

pub fn replay(ctx: &Ctx, _clause: &str, case: &Value) {
    let mut l = Local::default();
    judge(ctx, &mut l, case["lat"].as_f64().unwrap(), case["lon"].as_f64().unwrap());
}
