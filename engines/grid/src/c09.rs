//! C09 Nearest-good-day fallback finds the closest date with valid twilight.
//! History oracle: one conventional sweep over all dates gives validity and times per date.
use crate::common::*;
use chrono::{Days, NaiveDate};
use islamic_prayer_times::*;
use serde_json::{json, Value};

pub const PAD: u64 = 370;

#[derive(Clone)]
pub struct Conv {
    pub start: NaiveDate,
    pub rows: Vec<[Option<i64>; 6]>, // SIX order
}
impl Conv {
    pub fn build(m: &Params, site: Site, from: NaiveDate, to: NaiveDate, w: Option<(f64, f64)>, l: &mut Local) -> Conv {
        let mut p0 = m.clone();
        p0.extreme_latitude_method = ExtremeLatitudeMethod::None;
        p0.round_seconds = RoundSeconds::None;
        let mut rows = vec![];
        let mut d = from;
        while d <= to {
            let r = pt(&p0, site.loc(), d, w.map(|(a, b)| weather(a, b)));
            l.evals += 1;
            let mut row = [None; 6];
            for (i, pr) in SIX.iter().enumerate() {
                row[i] = secs(&r, *pr);
            }
            rows.push(row);
            d = d.succ_opt().unwrap();
        }
        Conv { start: from, rows }
    }
    pub fn row(&self, d: NaiveDate) -> Option<&[Option<i64>; 6]> {
        let i = (d - self.start).num_days();
        if i < 0 {
            None
        } else {
            self.rows.get(i as usize)
        }
    }
    pub fn good(&self, d: NaiveDate) -> bool {
        self.row(d).map(|r| r[0].is_some() && r[5].is_some()).unwrap_or(false)
    }
    /// closest good date, earlier on ties; (date, distance, tie)
    pub fn nearest_good(&self, d: NaiveDate) -> Option<(NaiveDate, u64, bool)> {
        for i in 0..=366u64 {
            let a = d - Days::new(i);
            let b = d + Days::new(i);
            if self.good(a) {
                return Some((a, i, i > 0 && self.good(b)));
            }
            if self.good(b) {
                return Some((b, i, false));
            }
        }
        None
    }
}

pub fn judge(ctx: &Ctx, l: &mut Local, m: &Params, site: Site, date: NaiveDate, conv: &Conv, w: Option<(f64, f64)>) {
    let row = *conv.row(date).expect("date inside sweep");
    let bad = row[0].is_none() || row[5].is_none();
    let Some((gd, dist, tie)) = conv.nearest_good(date) else {
        l.count("no_good_day_within_366", 1);
        return;
    };
    let grow = *conv.row(gd).unwrap();
    for (variant, pol) in [("invalid", ExtremeLatitudeMethod::NearestGoodDayFajrIshaInvalid), ("all", ExtremeLatitudeMethod::NearestGoodDayAllPrayersAlways)] {
        if variant == "invalid" && !bad {
            continue; // governed by C08 (identity)
        }
        let mut p = m.clone();
        p.extreme_latitude_method = pol;
        p.round_seconds = RoundSeconds::None;
        let r = pt(&p, site.loc(), date, w.map(|(a, b)| weather(a, b)));
        l.evals += 1;
        let case = || PtCase::new(&p, site, date).with_weather(w).with_extra(json!({"expected_good_date": date_json(gd), "distance_days": dist, "tie": tie}));
        for (i, pr) in SIX.iter().enumerate() {
            let must = if variant == "all" { true } else { (i == 0 || i == 5) && row[i].is_none() };
            if !must {
                continue;
            }
            let want = grow[i];
            let got = secs(&r, *pr);
            let flagged = flag(&r, *pr);
            let ok = match (want, got) {
                (Some(w), Some(g)) => cyc(g - w).abs() <= 1 && flagged == Some(true),
                (None, None) => true, // e.g. Asr of the good date itself invalid (all-prayers variant)
                _ => false,
            };
            if !ok {
                ctx.violation(
                    if variant == "all" { "all_prayers_variant_reports_times_of_nearest_good_date" } else { "missing_fajr_isha_taken_from_nearest_good_date" },
                    &format!("{:?}_{}", pr, case().key()),
                    case().to_value(),
                    json!({"prayer": format!("{:?}", pr), "requested": date_json(date), "nearest_good_date": date_json(gd), "distance": dist, "tie": tie, "expected_seconds_of_day": want, "got": fmt_r(&r)[format!("{:?}", pr)], "result": fmt_r(&r)}),
                );
            }
        }
        if bad && variant == "invalid" {
            l.nontrivial += 1;
            l.margin("max_distance_to_good_day", dist as f64);
            if tie {
                l.count("ties", 1);
            }
            if ctx.want_sample() && tie {
                ctx.sample(json!({"site": site, "date": date_json(date), "nearest_good_date": date_json(gd), "distance": dist, "tie": tie, "result": fmt_r(&r)}));
            }
        }
    }
}

pub fn explore(ctx: &Ctx) {
    // call sequences from non-initial states (see history.rs)
    crate::history::explore(ctx, "long_ranges", &crate::history::alphabet_long_ranges(), 2);
    crate::history::explore(ctx, "policy", &crate::history::alphabet_policy(), 2);
    let quick = ctx.tier == Tier::Quick;
    ctx.rule("every (site, method, date) enumerated once, dates in order; non-trivial = dates on which Fajr or Isha is conventionally missing (the fallback engaged); ties (two good dates at equal distance) counted separately");
    ctx.assume("reference nearest good date from a conventional sweep (policy None) over the same site/method: closest date with both Fajr and Isha valid, earlier date on ties, within 366 days");
    ctx.assume("'equal to the second' judged with +-1 s (the library steps the Julian Day by float addition)");
    ctx.assume("under the FajrIshaInvalid variant only the missing one(s) are demanded here; a still-valid one is governed by C08");
    let lats = [48.6, -48.6, 50.0, -50.0, 55.0, -55.0, 58.0, -58.0, 60.0, -60.0, 62.0, -62.0, 64.0, -64.0];
    let zs: Vec<(f64, f64)> = if quick { vec![(25.0, 2.0)] } else { vec![(25.0, 2.0), (-135.0, -9.0), (170.0, 12.0)] };
    let edge = [(ymd(1600, 1, 1), ymd(1600, 12, 31)), (ymd(2399, 1, 1), ymd(2399, 12, 31))];
    // the six angle methods, plus the two whose Fajr is angle-based while Isha is Maghrib + 90 min
    let methods: Vec<Method> = if quick { vec![Method::Mwl, Method::Egyptian, Method::Isna, Method::UmmAlQurra] } else { NAMED8.to_vec() };
    // (zone index, methods, date ranges): ~0.6 CPU-s per (site, method, year) bounds the thorough tier to
    // two centuries for the first zone and 25 years for the others
    let mut plan: Vec<(usize, Vec<Method>, Vec<(NaiveDate, NaiveDate)>)> = vec![];
    if quick {
        let mut r = vec![(ymd(2020, 1, 1), ymd(2024, 12, 31))];
        r.extend(edge);
        plan.push((0, methods.clone(), r));
    } else {
        let mut r = vec![(ymd(1900, 1, 1), ymd(2099, 12, 31))];
        r.extend(edge);
        plan.push((0, methods.clone(), r));
        for z in 1..zs.len() {
            plan.push((z, vec![Method::Mwl, Method::Egyptian, Method::Isna], vec![(ymd(2000, 1, 1), ymd(2024, 12, 31))]));
        }
    }
    let mut ranges: Vec<String> = vec![];
    let mut jobs = vec![];
    for (zi, ms, rs) in &plan {
        let (lon, gmt) = zs[*zi];
        for (a, b) in rs {
            ranges.push(format!("zone {:?}: {}..{} x {} methods", zs[*zi], a, b, ms.len()));
        }
        for &lat in &lats {
            for &m in ms {
                for &(a, b) in rs {
                    // split long ranges into 25-year jobs for load balance
                    let mut s = a;
                    while s <= b {
                        let e = (s + Days::new(365 * 25)).min(b);
                        jobs.push((Site::new(lat, lon, 0.0, gmt), Params::new(m), s, e, None));
                        s = e.succ_opt().unwrap();
                    }
                }
                // the same with weather supplied by the caller (the fallback must pass it on): one year
                if m == ms[0] {
                    jobs.push((Site::new(lat, lon, 0.0, gmt), Params::new(m), ymd(2023, 7, 1), ymd(2024, 6, 30), Some((1040.0, -25.0))));
                    jobs.push((Site::new(lat, lon, 0.0, gmt), Params::new(m), ymd(2023, 7, 1), ymd(2024, 6, 30), Some((880.0, 31.0))));
                }
            }
        }
    }
    // custom twilight angles: none of the named methods has an Isha angle larger than its Fajr angle,
    // or fractional angles - a "good day" must still be one on which BOTH exist
    let custom: Vec<(f64, f64)> = if quick { vec![(13.7, 17.2), (18.0, 12.0)] } else { vec![(13.7, 17.2), (12.0, 18.0), (9.0, 21.0), (18.0, 12.0), (16.3, 16.3), (21.0, 9.0)] };
    let lats_c: Vec<f64> = if quick { vec![56.43, -53.16, 50.0, 61.7] } else { vec![47.3, 56.43, -53.16, 50.0, -58.2, 61.7, 64.0] };
    for &(fa, ia) in &custom {
        for &lat in &lats_c {
            let mut pm = Params::new(Method::Mwl);
            pm.angles.insert(Prayer::Fajr, fa);
            pm.angles.insert(Prayer::Isha, ia);
            let (a, b) = if quick { (ymd(2023, 1, 1), ymd(2024, 12, 31)) } else { (ymd(2020, 1, 1), ymd(2029, 12, 31)) };
            jobs.push((Site::new(lat, zs[0].0, 0.0, zs[0].1), pm, a, b, None));
        }
    }
    // latitudes just below the usual band (46.56 < |lat| <= 48.5: only the deepest Fajr angles miss a few weeks)
    for &lat in &[47.0, 48.2, -47.5, 48.5] {
        for m in [Method::Egyptian, Method::Egypt] {
            jobs.push((Site::new(lat, zs[0].0, 0.0, zs[0].1), Params::new(m), ymd(2023, 1, 1), ymd(2024, 12, 31), None));
        }
    }
    // very deep custom angles: the no-twilight season takes most of the year, so the nearest good date is
    // up to half a year away (the search radius itself)
    let deep: Vec<f64> = if quick { vec![40.0, 49.0, 49.4396] } else { vec![30.0, 40.0, 45.0, 48.0, 49.0, 49.3, 49.4396] };
    for &a in &deep {
        for &(lat, lon, gmt) in &[(64.0, 25.0, 2.0), (-64.0, -90.0, -6.0)] {
            let mut pm = Params::new(Method::Mwl);
            pm.angles.insert(Prayer::Fajr, a);
            pm.angles.insert(Prayer::Isha, a);
            jobs.push((Site::new(lat, lon, 0.0, gmt), pm, ymd(2023, 1, 1), ymd(2024, 12, 31), None));
        }
    }
    ctx.alphabet("low_band_lats_egyptian", json!([47.0, 48.2, -47.5, 48.5]));
    ctx.alphabet("deep_custom_angles_at_64", json!(deep));
    ctx.alphabet("custom_angles_fajr_isha", json!({"angles": custom, "lats": lats_c}));
    ctx.alphabet("lats", json!(lats));
    ctx.alphabet("zones", json!(zs));
    ctx.alphabet("methods", json!(methods.iter().map(|m| format!("{:?}", m)).collect::<Vec<_>>()));
    ctx.alphabet("date_ranges", json!(ranges));
    ctx.alphabet("policies", json!(["NearestGoodDayFajrIshaInvalid", "NearestGoodDayAllPrayersAlways"]));
    ctx.alphabet("weather", json!(["absent (all ranges)", [1040.0, -25.0], [880.0, 31.0]]));
    par_jobs(ctx, &jobs, |(site, pm, a, b, w), l| {
        let pm = pm.clone();
        let conv = Conv::build(&pm, *site, *a - Days::new(PAD), *b + Days::new(PAD), *w, l);
        let mut d = *a;
        while d <= *b {
            judge(ctx, l, &pm, *site, d, &conv, *w);
            d = d.succ_opt().unwrap();
        }
    });
}

pub fn replay(ctx: &Ctx, _clause: &str, case: &Value) {
    let c: PtCase = serde_json::from_value::<PtCase>(case.clone()).map(PtCase::fix).expect("case");
    let mut l = Local::default();
    let conv = Conv::build(&c.params, c.site, c.date - Days::new(PAD), c.date + Days::new(PAD), c.weather, &mut l);
    judge(ctx, &mut l, &c.params, c.site, c.date, &conv, c.weather);
    println!("  result: {}", fmt_r(&c.run()));
}
