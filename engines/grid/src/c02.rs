//! C02 Shurooq and Maghrib are sunrise and sunset of the Sun's upper limb.
use crate::common::*;
use crate::refm;
use chrono::NaiveDate;
use islamic_prayer_times::*;
use serde_json::{json, Value};

pub const TOL_ALT: f64 = 0.05;
pub const H0: f64 = -0.833;
pub const WEATHER_MAX_SHIFT_S: i64 = 60;

/// altitude error (deg) at the reported instant: the reported clock time on the requested civil date.
/// (The library reports the rise/set that falls inside the 24 h window starting at local midnight of
/// that date, so this instant is the event itself also when the zone offset pushes it far from noon.)
pub fn alt_err(site: Site, date: NaiveDate, _s_dhuhr: i64, s: i64) -> f64 {
    let at = |d: NaiveDate| refm::altitude(refm::jd_of(d, s as f64 + 0.5, site.gmt), site.lat, site.lon) - H0;
    if (600..=85800).contains(&s) {
        at(date)
    } else {
        // within 10 minutes of the window boundary the final correction step may carry the event
        // across it (24:01 is printed as 00:01): the instant may belong to the neighbouring civil date
        let mut best = at(date);
        for d in [date.pred_opt().unwrap(), date.succ_opt().unwrap()] {
            let e = at(d);
            if e.abs() < best.abs() {
                best = e;
            }
        }
        best
    }
}

pub fn judge(ctx: &Ctx, l: &mut Local, p: &Params, site: Site, date: NaiveDate) {
    let r = pt(p, site.loc(), date, None);
    l.evals += 1;
    let case = || PtCase::new(p, site, date);
    let Some(sd) = secs(&r, Prayer::Dhuhr) else { return };
    let mut both = true;
    for (pr, name_alt, name_side) in [(Prayer::Shurooq, "shurooq_altitude", "shurooq_before_noon"), (Prayer::Maghrib, "maghrib_altitude", "maghrib_after_noon")] {
        let Some(s) = secs(&r, pr) else {
            both = false;
            continue;
        };
        let e = alt_err(site, date, sd, s);
        l.margin("rise_set_altitude_error_deg", e);
        if e.abs() > TOL_ALT {
            ctx.violation(name_alt, &case().key(), case().to_value(), json!({"time": fmt_r(&r)[format!("{:?}", pr)], "altitude_error_deg": e, "tolerance": TOL_ALT}));
        }
        let o = cyc(s - sd);
        let ok = if pr == Prayer::Shurooq { o < 0 && o > -43200 } else { o > 0 && o < 43200 };
        if !ok {
            ctx.violation(name_side, &case().key(), case().to_value(), json!({"result": fmt_r(&r), "offset_from_dhuhr_s": o}));
        }
        if cyc(s - sd) != s - sd {
            l.count("events_crossing_local_midnight", 1);
        }
    }
    if both {
        l.nontrivial += 1;
    } else if site.lat.abs() <= 60.0 {
        // |lat| <= 60: sunrise and sunset exist on every date
        ctx.violation("rise_set_exist_below_60", &case().key(), case().to_value(), json!({"result": fmt_r(&r)}));
    }
    if ctx.want_sample() && date == ymd(2024, 6, 21) {
        ctx.sample(json!({"site": site, "date": date_json(date), "result": fmt_r(&r)}));
    }
}

pub const WEATHERS: [(f64, f64); 6] = [(100.0, -90.0), (100.0, 57.0), (1050.0, -90.0), (1050.0, 57.0), (1010.0, 14.0), (700.0, 30.0)];

pub fn judge_weather(ctx: &Ctx, l: &mut Local, p: &Params, site: Site, date: NaiveDate) {
    let base = pt(p, site.loc(), date, None);
    l.evals += 1;
    let interval_fajr = p.intervals[&Prayer::Fajr] != 0.0;
    let interval_isha = p.intervals[&Prayer::Isha] != 0.0;
    for (wp, wt) in WEATHERS {
        let r = pt(p, site.loc(), date, Some(weather(wp, wt)));
        l.evals += 1;
        l.nontrivial += 1;
        let case = || PtCase::new(p, site, date).with_weather(Some((wp, wt)));
        for pr in SEQ7 {
            let derived = matches!(pr, Prayer::Shurooq | Prayer::Maghrib)
                || (interval_fajr && matches!(pr, Prayer::Fajr | Prayer::Imsaak))
                || (interval_isha && pr == Prayer::Isha);
            match (base[&pr], r[&pr]) {
                (Ok(a), Ok(b)) => {
                    let a_s = a.time;
                    let b_s = b.time;
                    if derived {
                        let d = cyc(secs(&r, pr).unwrap() - secs(&base, pr).unwrap());
                        l.margin("weather_shift_s", d as f64);
                        if d.abs() >= WEATHER_MAX_SHIFT_S {
                            ctx.violation("weather_moves_rise_set_by_seconds_only", &case().key(), case().to_value(), json!({"prayer": format!("{:?}", pr), "shift_s": d, "without": fmt_r(&base), "with": fmt_r(&r)}));
                        }
                    } else if a_s != b_s || a.extreme != b.extreme {
                        ctx.violation("weather_leaves_other_times_untouched", &case().key(), case().to_value(), json!({"prayer": format!("{:?}", pr), "without": fmt_r(&base), "with": fmt_r(&r)}));
                    }
                }
                (Err(_), Err(_)) => {}
                _ => {
                    ctx.violation("weather_changes_validity", &case().key(), case().to_value(), json!({"prayer": format!("{:?}", pr), "without": fmt_r(&base), "with": fmt_r(&r)}));
                }
            }
        }
        if (wp, wt) == (1010.0, 14.0) && r != base {
            ctx.violation("absent_weather_equals_default_weather", &case().key(), case().to_value(), json!({"without": fmt_r(&base), "with": fmt_r(&r)}));
        }
    }
}

pub fn explore(ctx: &Ctx) {
    // call sequences from non-initial states (see history.rs)
    crate::history::explore(ctx, "params", &crate::history::alphabet_params(), if ctx.tier == Tier::Thorough { 3 } else { 2 });
    let quick = ctx.tier == Tier::Quick;
    ctx.rule("every (site, date, params[, weather]) tuple is enumerated once; non-trivial = both Shurooq and Maghrib reported and judged against the reference ephemeris (altitude clause), resp. each weather variant compared with the weather-less call");
    ctx.assume("reference ephemeris Meeus ch.25 (self-tested); instant = requested civil date + (reported second + 0.5 s), also when the zone offset puts the event on the far side of local midnight; only within 10 minutes of 00:00 the neighbouring civil dates are admitted as well (the last correction step can carry an event across the boundary)");
    ctx.assume("lattice coverage of the real-valued dimensions");
    let all = d_all();
    let lats: Vec<f64> = vec![0.0, 10.0, -10.0, 23.44, -23.44, 40.0, -40.0, 50.0, -50.0, 60.0, -60.0];
    let zs: Vec<(f64, f64)> = if quick { vec![(-77.2086, -5.0), (39.8233, 3.0), (151.2, 10.0), (0.0, 3.5), (-180.0, -12.0), (180.0, 8.5)] } else { zones(30.0, &[-3.5, -1.0, 0.0, 1.0, 3.5]) };
    let mut sites = vec![];
    for (i, &lat) in lats.iter().enumerate() {
        for (j, &(lon, gmt)) in zs.iter().enumerate() {
            if quick && (i + j) % 2 != 0 {
                continue;
            }
            sites.push(Site::new(lat, lon, [0.0, 8848.0, -420.0][(i + j) % 3], gmt));
        }
    }
    // far-from-natural zone offsets: the rise/set (or both) then falls on the far side of local midnight
    // all year round, which is where the day-fraction wrap of the algorithm is exercised
    let far: Vec<(f64, f64)> = if quick { vec![(0.0, 6.0), (0.0, -9.0), (120.0, -3.5), (-120.0, 3.5), (30.0, -9.5)] } else { vec![(0.0, 6.0), (0.0, -6.0), (0.0, 9.0), (0.0, -9.0), (0.0, 11.5), (0.0, -12.0), (120.0, -3.5), (-120.0, 3.5), (30.0, -9.5), (-45.0, 9.0)] };
    for (k, &(lon, gmt)) in far.iter().enumerate() {
        for (i, &lat) in [0.0, 23.44, -23.44, 40.0, -40.0, 60.0, -60.0].iter().enumerate() {
            if quick && (i + k) % 2 != 0 {
                continue;
            }
            sites.push(Site::new(lat, lon, 0.0, gmt));
        }
    }
    sites.extend(off_lattice_sites(quick, 60.0));
    ctx.alphabet("off_lattice_sites", json!(off_lattice_sites(quick, 60.0)));
    ctx.alphabet("far_zone_sites_lon_gmt", json!(far));
    ctx.alphabet("sites", json!({"count": sites.len(), "lats": lats, "zones": zs.len()}));
    ctx.alphabet("dates_main", json!({"range": "1600-01-01..2399-12-31", "count": all.len(), "method": "Mwl, policy None"}));
    let pa = params_conv(Method::Mwl);
    par_jobs(ctx, &sites, |site, l| {
        for &d in &all {
            judge(ctx, l, &pa, *site, d);
        }
    });
    // all named methods on the seam dates
    let seam = d_seam(1600, 2399);
    let sites_m: Vec<Site> = sites.iter().cloned().step_by(if quick { 3 } else { 9 }).collect();
    let mut jobs = vec![];
    for s in &sites_m {
        for m in NAMED8 {
            jobs.push((*s, m));
        }
    }
    ctx.alphabet("methods_part", json!({"sites": sites_m.len(), "methods": 8, "dates": seam.len()}));
    par_jobs(ctx, &jobs, |(site, m), l| {
        let p = params_conv(*m);
        for &d in &seam {
            judge(ctx, l, &p, *site, d);
        }
    });
    // weather clause
    let wdates = if quick { dates_of_years(&[2023, 2024]) } else { dates_of_years(&YEARS6) };
    let mut wjobs = vec![];
    for s in sites.iter().step_by(if quick { 2 } else { 5 }) {
        for m in [Method::Mwl, Method::UmmAlQurra, Method::Hanafi] {
            wjobs.push((*s, m));
        }
    }
    ctx.alphabet("weather_part", json!({"jobs_site_x_method": wjobs.len(), "dates": wdates.len(), "weather_points_pressure_temp": WEATHERS}));
    par_jobs(ctx, &wjobs, |(site, m), l| {
        let p = params_conv(*m);
        for &d in &wdates {
            judge_weather(ctx, l, &p, *site, d);
        }
    });
}

pub fn replay(ctx: &Ctx, clause: &str, case: &Value) {
    let c: PtCase = serde_json::from_value::<PtCase>(case.clone()).map(PtCase::fix).expect("case");
    let mut l = Local::default();
    if clause.starts_with("weather") || clause.starts_with("absent") {
        judge_weather(ctx, &mut l, &c.params, c.site, c.date);
    } else {
        judge(ctx, &mut l, &c.params, c.site, c.date);
    }
    println!("  result: {}", fmt_r(&c.run()));
}
