//! C19 The CLI reports what the library computes; saved parameters reproduce it (engine P).
use crate::common::*;
use chrono::{Duration, NaiveDate};
use islamic_prayer_times::*;
use serde::{Deserialize, Serialize};
use serde_json::{json, Value};
use std::collections::BTreeMap;
use std::path::{Path, PathBuf};
use std::process::Command;

#[derive(Serialize, Deserialize)]
struct ParamsConfig {
    params: Params,
    location: Location,
    date_range: Option<DateRange>,
}
type RangeResult = BTreeMap<NaiveDate, BTreeMap<Prayer, Result<PrayerTime, ()>>>;

#[derive(Clone, Debug, Serialize, Deserialize)]
pub struct Cfg {
    pub method: Option<String>, // None = flag absent (default Isna)
    pub lat: f64,
    pub lon: f64,
    pub elev: Option<f64>, // None = flag absent (default 0)
    pub gmt: f64,
    pub start: NaiveDate,
    pub days: i64, // end = start + days - 1
    pub long_flags: bool,
}

fn method_of(name: &Option<String>) -> Method {
    match name.as_deref() {
        None => Method::Isna,
        Some("none") => Method::None,
        Some("egyptian") => Method::Egyptian,
        Some("egypt") => Method::Egypt,
        Some("shafi") => Method::Shafi,
        Some("hanafi") => Method::Hanafi,
        Some("isna") => Method::Isna,
        Some("mwl") => Method::Mwl,
        Some("umm-al-qurra") => Method::UmmAlQurra,
        Some("fixed-isha") => Method::FixedIsha,
        Some(x) => panic!("unknown method name {}", x),
    }
}
pub const METHOD_NAMES: [&str; 9] = ["none", "egyptian", "egypt", "shafi", "hanafi", "isna", "mwl", "umm-al-qurra", "fixed-isha"];

fn num(v: f64) -> String {
    format!("{}", v)
}
impl Cfg {
    pub fn args(&self) -> Vec<String> {
        let mut a = vec![];
        let mut push = |short: &str, long: &str, val: String| {
            // clap rejects the space-separated form for negative numbers; use --opt=value there
            if self.long_flags || val.starts_with('-') {
                a.push(format!("--{}={}", long, val));
            } else {
                a.push(format!("-{}", short));
                a.push(val);
            }
        };
        push("g", "gmt", num(self.gmt));
        push("l", "latitude", num(self.lat));
        push("t", "longitude", num(self.lon));
        if let Some(e) = self.elev {
            push("e", "elevation", num(e));
        }
        if let Some(m) = &self.method {
            push("m", "method", m.clone());
        }
        push("s", "start-date", self.start.to_string());
        push("n", "end-date", self.end().to_string());
        a
    }
    pub fn end(&self) -> NaiveDate {
        self.start + Duration::days(self.days - 1)
    }
    pub fn site(&self) -> Site {
        Site::new(self.lat, self.lon, self.elev.unwrap_or(0.0), self.gmt)
    }
    pub fn key(&self) -> String {
        format!("{:?}_{}_{}d_{}", self.method, self.site().key(), self.days, self.start)
    }
}

pub struct Run {
    pub code: Option<i32>,
    pub stdout: String,
    pub stderr: String,
}
pub fn cli() -> String {
    std::env::var("IPT_CLI").unwrap_or_else(|_| format!("{}/target/cli/release/islamic_prayer_times", verif_dir()))
}
pub fn run_cli(dir: &Path, args: &[String]) -> Run {
    run_cli_tz(dir, args, "UTC")
}
pub fn run_cli_tz(dir: &Path, args: &[String], tz: &str) -> Run {
    let out = Command::new(cli()).args(args).current_dir(dir).env("TZ", tz).output().expect("spawn CLI (machinery)");
    Run { code: out.status.code(), stdout: String::from_utf8_lossy(&out.stdout).to_string(), stderr: String::from_utf8_lossy(&out.stderr).to_string() }
}
fn fresh_dir(tag: &str) -> PathBuf {
    let d = PathBuf::from(format!("{}/target/tmp/c19/{}", verif_dir(), tag));
    let _ = std::fs::remove_dir_all(&d);
    std::fs::create_dir_all(&d).expect("mkdir");
    d
}

/// Does the terminal listing show, date after date, the Hijri date and the seven entries of the library's
/// result? Tolerant of layout: for each date a line containing the Hijri date text, then - in the
/// result's order - one line per prayer containing its name and its time text (or "Invalid"). A civil date
/// in the heading, if any, must be the date's own.
fn listing_mismatch(stdout: &str, expected: &RangeResult) -> Option<String> {
    let lines: Vec<&str> = stdout.lines().collect();
    let pos = std::cell::Cell::new(0usize);
    let next_with = |needles: &[String], what: String| -> Result<(), String> {
        while pos.get() < lines.len() {
            let l = lines[pos.get()];
            pos.set(pos.get() + 1);
            if needles.iter().all(|n| l.contains(n.as_str())) {
                return Ok(());
            }
        }
        Err(what)
    };
    for (d, m) in expected {
        let hijri = HijriDate::from(*d).to_string();
        if let Err(e) = next_with(&[hijri.clone()], format!("no line with the Hijri date '{}' for {}", hijri, d)) {
            return Some(e);
        }
        // whatever else the heading says about the date must be about THIS date: if it carries a civil
        // date (numbers besides the Hijri text, English month names), the year and the day of the month
        // must be those of the date and a month name must be the right one. No layout is demanded.
        {
            use chrono::Datelike;
            let i = pos.get();
            let head = lines[i - 1].replacen(hijri.as_str(), " ", 1);
            let nums: Vec<i64> = head.split(|c: char| !c.is_ascii_digit()).filter(|t| !t.is_empty()).filter_map(|t| t.parse().ok()).collect();
            const MONTHS: [&str; 12] = ["January", "February", "March", "April", "May", "June", "July", "August", "September", "October", "November", "December"];
            let named: Vec<usize> = (0..12).filter(|k| head.contains(MONTHS[*k])).collect();
            if nums.iter().any(|n| *n >= 100) && !nums.contains(&(d.year() as i64)) {
                return Some(format!("the heading of {} shows another year: '{}'", d, lines[i - 1]));
            }
            if !nums.is_empty() && !nums.contains(&(d.day() as i64)) {
                return Some(format!("the heading of {} shows another day of the month: '{}'", d, lines[i - 1]));
            }
            if !named.is_empty() && !named.contains(&(d.month0() as usize)) {
                return Some(format!("the heading of {} names another month: '{}'", d, lines[i - 1]));
            }
        }
        for (p, t) in m {
            let val = match t {
                Ok(t) => t.to_string().trim().to_string(),
                Err(_) => "Invalid".to_string(),
            };
            if let Err(e) = next_with(&[p.to_string(), val.clone()], format!("no line with '{}' and '{}' for {}", p, val, d)) {
                return Some(e);
            }
        }
    }
    // nothing but blank lines may follow (no entries for dates outside the range)
    if lines[pos.get()..].iter().any(|l| SEQ7.iter().any(|p| l.contains(&format!("{}:", p)))) {
        return Some("entries after the last expected date".into());
    }
    None
}

pub fn judge(ctx: &Ctx, l: &mut Local, c: &Cfg, tag: &str) {
    let dir = fresh_dir(tag);
    let case = || serde_json::to_value(c).unwrap();
    let key = c.key();
    let params = Params::new(method_of(&c.method));
    let dr = DateRange::from(c.start..=c.end());
    let expected: RangeResult = prayer_times_dt_rng(&params, c.site().loc(), &dr);
    let fail = |clause: &str, detail: Value| {
        ctx.violation(clause, &key, json!({"kind": "accepted", "cfg": case(), "args": c.args()}), detail);
    };
    // run 1: -o and -p
    let mut a1 = c.args();
    a1.extend(["-o".into(), "o1.json".into(), "-p".into(), "p1.json".into()]);
    let r1 = run_cli(&dir, &a1);
    l.evals += 1;
    if r1.code != Some(0) {
        fail("accepted_command_line_exits_zero", json!({"args": a1, "exit": r1.code, "stderr": r1.stderr}));
        return;
    }
    let o1 = std::fs::read(dir.join("o1.json")).unwrap_or_default();
    match serde_json::from_slice::<RangeResult>(&o1) {
        Ok(got) => {
            if got != expected {
                let first = expected.iter().find(|(d, v)| got.get(d) != Some(v)).map(|(d, _)| d.to_string());
                fail("output_json_equals_library_result", json!({"dates_expected": expected.len(), "dates_got": got.len(), "first_differing_date": first, "got_first": got.iter().next().map(|(d, v)| json!({"date": d.to_string(), "times": fmt_r(v)})), "expected_first": expected.iter().next().map(|(d, v)| json!({"date": d.to_string(), "times": fmt_r(v)}))}));
            }
        }
        Err(e) => fail("output_json_decodes", json!({"error": e.to_string(), "bytes": o1.len()})),
    }
    let p1 = std::fs::read(dir.join("p1.json")).unwrap_or_default();
    match serde_json::from_slice::<ParamsConfig>(&p1) {
        Ok(pc) => {
            let same = serde_json::to_value(&pc.params).unwrap() == serde_json::to_value(&params).unwrap() && pc.location == c.site().loc() && pc.date_range == Some(dr.clone());
            if !same {
                fail("parameter_file_holds_the_run_parameters", json!({"file": String::from_utf8_lossy(&p1)}));
            }
        }
        Err(e) => fail("parameter_file_decodes", json!({"error": e.to_string(), "bytes": p1.len()})),
    }
    // run 2: feed the parameter file back
    let a2: Vec<String> = vec!["-i".into(), "p1.json".into(), "-o".into(), "o2.json".into()];
    let r2 = run_cli(&dir, &a2);
    l.evals += 1;
    let o2 = std::fs::read(dir.join("o2.json")).unwrap_or_default();
    if r2.code != Some(0) || o2 != o1 {
        fail("parameter_file_reproduces_byte_identical_output", json!({"exit": r2.code, "stderr": r2.stderr, "bytes_first": o1.len(), "bytes_second": o2.len()}));
    }
    // run 3: terminal listing (no -o), writing the parameter file again over the existing one
    let mut a3 = c.args();
    a3.extend(["-p".into(), "p1.json".into()]);
    let r3 = run_cli(&dir, &a3);
    l.evals += 1;
    let mm = listing_mismatch(&r3.stdout, &expected);
    if r3.code != Some(0) || mm.is_some() {
        fail("terminal_listing_shows_hijri_date_and_seven_entries", json!({"exit": r3.code, "what": mm, "first_lines": r3.stdout.lines().take(10).collect::<Vec<_>>()}));
    }
    // (the file's bytes may differ between runs: map key order is unspecified; it must decode to the same document)
    let p1b = std::fs::read(dir.join("p1.json")).unwrap_or_default();
    let same_doc = match (serde_json::from_slice::<Value>(&p1), serde_json::from_slice::<Value>(&p1b)) {
        (Ok(a), Ok(b)) => a == b,
        _ => false,
    };
    if !same_doc {
        fail("parameter_file_rewritten_with_same_content", json!({"first": String::from_utf8_lossy(&p1), "second": String::from_utf8_lossy(&p1b)}));
    }
    // run 4: -i with terminal listing
    let r4 = run_cli(&dir, &["-i".to_string(), "p1.json".to_string()]);
    l.evals += 1;
    if r4.code != Some(0) || r4.stdout != r3.stdout {
        fail("parameter_file_reproduces_listing", json!({"exit": r4.code, "stderr": r4.stderr}));
    }
    // run 4b: -o alone (no -p) and -i together with -p and -o: the remaining flag combinations
    let mut a4 = c.args();
    a4.extend(["-o".into(), "o3.json".into()]);
    let r4b = run_cli(&dir, &a4);
    l.evals += 1;
    if r4b.code != Some(0) || std::fs::read(dir.join("o3.json")).unwrap_or_default() != o1 {
        fail("output_flag_alone_gives_the_same_output", json!({"exit": r4b.code, "stderr": r4b.stderr}));
    }
    let r4c = run_cli(&dir, &["-i".to_string(), "p1.json".to_string(), "-p".to_string(), "p2.json".to_string(), "-o".to_string(), "o4.json".to_string()]);
    l.evals += 1;
    if r4c.code != Some(0) || std::fs::read(dir.join("o4.json")).unwrap_or_default() != o1 {
        fail("input_file_with_all_flags_reproduces_output", json!({"exit": r4c.code, "stderr": r4c.stderr}));
    }
    // run 4d: start date given, end date omitted: the range is that single day (no dependence on today)
    let mut a6: Vec<String> = c.args().into_iter().filter(|x| !x.starts_with("--end-date")).collect();
    if let Some(i) = a6.iter().position(|x| x == "-n") {
        a6.drain(i..i + 2);
    }
    a6.extend(["-o".into(), "o5.json".into(), "-p".into(), "p5.json".into()]);
    let r6 = run_cli(&dir, &a6);
    l.evals += 1;
    let exp6 = prayer_times_dt_rng(&params, c.site().loc(), &DateRange::from(c.start..=c.start));
    let got6 = serde_json::from_slice::<RangeResult>(&std::fs::read(dir.join("o5.json")).unwrap_or_default()).ok();
    let pc6 = serde_json::from_slice::<ParamsConfig>(&std::fs::read(dir.join("p5.json")).unwrap_or_default()).ok();
    if r6.code != Some(0) || got6.as_ref() != Some(&exp6) || pc6.map(|p| p.date_range) != Some(Some(DateRange::from(c.start..=c.start))) {
        fail("start_date_alone_means_that_single_day", json!({"args": a6, "exit": r6.code, "dates_got": got6.map(|g| g.len())}));
    }
    // run 5: a shorter range written over the same -o/-p paths must fully replace them (2-step sequence)
    if c.days > 2 {
        let mut c5 = c.clone();
        c5.days = 1;
        let mut a5 = c5.args();
        a5.extend(["-o".into(), "o1.json".into(), "-p".into(), "p1.json".into()]);
        let r5 = run_cli(&dir, &a5);
        l.evals += 1;
        let exp5 = prayer_times_dt_rng(&params, c.site().loc(), &DateRange::from(c.start..=c.start));
        let got5 = serde_json::from_slice::<RangeResult>(&std::fs::read(dir.join("o1.json")).unwrap_or_default()).ok();
        let pc5 = serde_json::from_slice::<ParamsConfig>(&std::fs::read(dir.join("p1.json")).unwrap_or_default()).ok();
        if r5.code != Some(0) || got5.as_ref() != Some(&exp5) || pc5.is_none() {
            fail("second_run_over_existing_files_reports_its_own_result", json!({"exit": r5.code, "decoded": got5.is_some(), "params_decoded": pc5.is_some()}));
        }
    }
    l.nontrivial += 1;
    if ctx.want_sample() {
        ctx.sample(json!({"args": a1, "dates": expected.len(), "first_listing_lines": r3.stdout.lines().take(4).collect::<Vec<_>>()}));
    }
    let _ = std::fs::remove_dir_all(&dir);
}

/// The defaults that depend on the clock. The environment answer "today" is owned through TZ: the three
/// zones UTC, UTC+14 and UTC-12 always give at least two different civil dates. Expected today =
/// UTC now + zone offset, read before and after the run (a run that straddles a date change is repeated).
/// variant: 0 = no dates (today..=today); k > 0 = only `-n today+k` (today..=today+k);
/// -1 = only `-n yesterday` (the reversed range today..=yesterday: no dates)
pub const TODAY_ZONES: [(&str, i64); 3] = [("UTC", 0), ("XXX-14", 14), ("XXX12", -12)];
pub fn judge_today(ctx: &Ctx, l: &mut Local, method: &str, site: Site, zone: usize, variant: i64, tag: &str) {
    let (tz, off) = TODAY_ZONES[zone];
    let today_now = || (chrono::Utc::now() + chrono::Duration::hours(off)).date_naive();
    let dir = fresh_dir(tag);
    let key = format!("today_{}_{}_v{}_{}", method, site.key(), variant, tz);
    let case = json!({"kind": "today", "method": method, "site": site, "zone": zone, "variant": variant});
    for _attempt in 0..3 {
        let t0 = today_now();
        let mut a: Vec<String> = vec![format!("--gmt={}", site.gmt), format!("--latitude={}", site.lat), format!("--longitude={}", site.lon), format!("--method={}", method)];
        let end = t0 + chrono::Duration::days(variant);
        if variant != 0 {
            a.extend(["-n".into(), end.to_string()]);
        }
        a.extend(["-o".into(), "o.json".into(), "-p".into(), "p.json".into()]);
        let r = run_cli_tz(&dir, &a, tz);
        l.evals += 1;
        if today_now() != t0 {
            continue; // the civil date changed during the run: ask again
        }
        let m: Method = method_of(&Some(method.to_string()));
        let dr = DateRange::from(t0..=end);
        let expected: RangeResult = prayer_times_dt_rng(&Params::new(m), site.loc(), &dr);
        let got = serde_json::from_slice::<RangeResult>(&std::fs::read(dir.join("o.json")).unwrap_or_default()).ok();
        let pc = serde_json::from_slice::<ParamsConfig>(&std::fs::read(dir.join("p.json")).unwrap_or_default()).ok();
        l.nontrivial += 1;
        if r.code != Some(0) || got.as_ref() != Some(&expected) || pc.and_then(|p| p.date_range) != Some(dr) {
            ctx.violation("absent_dates_default_to_today", &key, case, json!({"args": a, "TZ": tz, "today_in_that_zone": t0.to_string(), "exit": r.code, "dates_expected": expected.keys().map(|d| d.to_string()).collect::<Vec<_>>(), "dates_got": got.map(|g| g.keys().map(|d| d.to_string()).collect::<Vec<_>>())}));
        }
        let _ = std::fs::remove_dir_all(&dir);
        return;
    }
    eprintln!("MACHINERY: the civil date kept changing during three runs of the CLI");
    std::process::exit(3);
}

pub fn judge_rejected(ctx: &Ctx, l: &mut Local, args: &[String], tag: &str) {
    let dir = fresh_dir(tag);
    let mut a = args.to_vec();
    a.extend(["-o".into(), "o.json".into(), "-p".into(), "p.json".into()]);
    let r = run_cli(&dir, &a);
    l.evals += 1;
    l.nontrivial += 1;
    let created: Vec<String> = std::fs::read_dir(&dir).map(|d| d.filter_map(|e| e.ok()).map(|e| e.file_name().to_string_lossy().to_string()).collect()).unwrap_or_default();
    if r.code == Some(0) || r.stderr.trim().is_empty() || !created.is_empty() {
        ctx.violation("invalid_input_rejected_before_computing", &args.join(" "), json!({"kind": "rejected", "args": args}), json!({"exit": r.code, "stderr": r.stderr, "files_created": created, "stdout_bytes": r.stdout.len()}));
    }
    let _ = std::fs::remove_dir_all(&dir);
}

/// rejected parameter files (the -i route): (description, file content or None = file missing)
pub fn rejected_files() -> Vec<(String, Option<String>)> {
    let good = serde_json::to_value(ParamsConfig { params: Params::new(Method::Isna), location: Site::new(21.4, 39.8, 0.0, 3.0).loc(), date_range: Some(DateRange::from(ymd(2024, 1, 1)..=ymd(2024, 1, 3))) }).unwrap();
    let mut v: Vec<(String, Option<String>)> = vec![("missing file".into(), None), ("not JSON".into(), Some("this is not json".into())), ("empty file".into(), Some(String::new())), ("truncated JSON".into(), Some(good.to_string()[..40].to_string()))];
    for (path, val) in [
        (vec!["location", "coords", "latitude"], json!(90.5)),
        (vec!["location", "coords", "latitude"], json!(-91)),
        (vec!["location", "coords", "longitude"], json!(180.5)),
        (vec!["location", "coords", "elevation"], json!(9000)),
        (vec!["location", "gmt"], json!(12.5)),
        (vec!["location", "gmt"], json!("3")),
        (vec!["location", "coords", "latitude"], Value::Null),
    ] {
        let mut d = good.clone();
        let mut cur = &mut d;
        for p in &path {
            cur = cur.get_mut(*p).unwrap();
        }
        *cur = val.clone();
        v.push((format!("{} = {}", path.join("."), val), Some(d.to_string())));
    }
    // a malformed date inside the range
    v.push(("date_range with 2024-02-30".into(), Some(good.to_string().replace("2024-01-03", "2024-02-30"))));
    v
}

pub fn judge_rejected_file(ctx: &Ctx, l: &mut Local, what: &str, content: &Option<String>, tag: &str) {
    let dir = fresh_dir(tag);
    if let Some(c) = content {
        std::fs::write(dir.join("in.json"), c).unwrap();
    }
    let r = run_cli(&dir, &["-i".to_string(), "in.json".to_string(), "-o".to_string(), "o.json".to_string()]);
    l.evals += 1;
    l.nontrivial += 1;
    let out_created = dir.join("o.json").exists();
    if r.code == Some(0) || r.stderr.trim().is_empty() || out_created {
        ctx.violation("invalid_input_rejected_before_computing", &format!("-i {}", what), json!({"kind": "rejected_file", "what": what, "content": content}), json!({"exit": r.code, "stderr": r.stderr.chars().take(300).collect::<String>(), "output_file_created": out_created}));
    }
    let _ = std::fs::remove_dir_all(&dir);
}

pub fn rejected_lines() -> Vec<Vec<String>> {
    let base = |g: &str, l: &str, t: &str, e: &str, s: &str, n: &str| -> Vec<String> { vec![format!("--gmt={}", g), format!("--latitude={}", l), format!("--longitude={}", t), format!("--elevation={}", e), format!("--start-date={}", s), format!("--end-date={}", n)] };
    let ok = ("3", "21.4", "39.8", "0", "2024-01-01", "2024-01-03");
    let mut v = vec![];
    for g in ["12.000001", "-12.000001", "13", "NaN", "nan", "inf", "-inf", "abc", "", "1e400", "1,5", " 3"] {
        v.push(base(g, ok.1, ok.2, ok.3, ok.4, ok.5));
    }
    for lat in ["90.000001", "-90.000001", "91", "NaN", "-nan", "inf", "north", "", "9e99"] {
        v.push(base(ok.0, lat, ok.2, ok.3, ok.4, ok.5));
    }
    for lon in ["180.000001", "-180.000001", "181", "NaN", "infinity", "east", "", "1e309"] {
        v.push(base(ok.0, ok.1, lon, ok.3, ok.4, ok.5));
    }
    for e in ["8848.000001", "-420.000001", "9000", "-421", "NaN", "inf", "high", ""] {
        v.push(base(ok.0, ok.1, ok.2, e, ok.4, ok.5));
    }
    for d in ["2024-02-30", "2023-02-29", "2024-13-01", "2024-00-10", "20240101", "01/02/2024", "abc", "", "2024-1-1x"] {
        v.push(base(ok.0, ok.1, ok.2, ok.3, d, ok.5));
        v.push(base(ok.0, ok.1, ok.2, ok.3, ok.4, d));
    }
    let mut m = base(ok.0, ok.1, ok.2, ok.3, ok.4, ok.5);
    m.push("--method=karachi".into());
    v.push(m);
    v
}

pub fn explore(ctx: &Ctx) {
    let quick = ctx.tier == Tier::Quick;
    ctx.rule("every accepted configuration is one case = a sequence of 8 runs of the real binary (-o -p; -i -o; listing + -p over the existing file; -i listing; -o alone; -i -p -o; start date without end date; a shorter range over the same paths); every rejected command line is one case; all distinct, all non-trivial (each is judged against the library resp. the rejection contract)");
    ctx.assume("an absent end date means the start date; an absent start date means today - the clock is owned through TZ (three zones, at least two different civil dates), expected today = UTC now + zone offset, bracketed before/after each run");
    ctx.assume("negative values are passed as --opt=value (clap rejects the space-separated form: an unaccepted command line, outside the property)");
    ctx.assume("400-day ranges only with |lat| <= 58.3; polar sites get <= 31 days (cost of failing nearest-good-day searches)");
    if !Path::new(&cli()).exists() {
        eprintln!("MACHINERY: CLI binary {} missing", cli());
        std::process::exit(2);
    }
    let lats: Vec<f64> = if quick { vec![-33.9, 21.4233, 58.3, 90.0] } else { vec![-90.0, -33.9, 0.0, 21.4233, 58.3, 90.0] };
    let lons: Vec<f64> = if quick { vec![-180.0, -77.2086, 39.8233] } else { vec![-180.0, -77.2086, 39.8233, 180.0] };
    let elevs: Vec<Option<f64>> = if quick { vec![None, Some(8848.0)] } else { vec![Some(-420.0), None, Some(8848.0)] };
    // incl. a quarter-hour zone (not a multiple of 0.1 h: survives the -p / -i round trip only if written exactly)
    let gmts: Vec<f64> = if quick { vec![-12.0, 5.75, 12.0] } else { vec![-12.0, -4.5, 5.75, 12.0] };
    let ranges: Vec<(NaiveDate, i64)> = if quick { vec![(ymd(2024, 2, 28), 3), (ymd(2023, 12, 31), 1), (ymd(2023, 6, 1), 400), (ymd(2023, 6, 20), 3), (ymd(2024, 12, 29), 5)] } else { vec![(ymd(2024, 2, 28), 3), (ymd(2023, 12, 31), 1), (ymd(2023, 12, 31), 2), (ymd(2023, 12, 15), 31), (ymd(2023, 6, 1), 400), (ymd(2024, 3, 5), 0), (ymd(2024, 12, 29), 5), (ymd(2020, 12, 30), 6)] };
    let mut methods: Vec<Option<String>> = METHOD_NAMES.iter().map(|m| Some(m.to_string())).collect();
    methods.push(None);
    let mut cfgs = vec![];
    let mut n = 0;
    for m in &methods {
        for &lat in &lats {
            for &lon in &lons {
                for e in &elevs {
                    for &g in &gmts {
                        for &(s, days) in &ranges {
                            if days > 31 && (lat.abs() > 58.3 || (quick && lat.abs() > 45.0)) {
                                continue;
                            }
                            // the New-Year range (ISO-week year != calendar year) matters for the listing only: one site per method and zone
                            if quick && s == ymd(2024, 12, 29) && !(lon == -77.2086 && e.is_none() && lat == 21.4233) {
                                continue;
                            }
                            n += 1;
                            cfgs.push(Cfg { method: m.clone(), lat, lon, elev: *e, gmt: g, start: s, days, long_flags: n % 2 == 0 });
                        }
                    }
                }
            }
        }
    }
    ctx.alphabet("methods", json!({"names": METHOD_NAMES, "plus": "flag absent (default)"}));
    ctx.alphabet("lats", json!(lats));
    ctx.alphabet("lons", json!(lons));
    ctx.alphabet("elevations", json!(elevs));
    ctx.alphabet("gmts", json!(gmts));
    ctx.alphabet("ranges_start_days", json!(ranges.iter().map(|(s, d)| json!([s.to_string(), d])).collect::<Vec<_>>()));
    ctx.alphabet("accepted_configurations", json!(cfgs.len()));
    let rej = rejected_lines();
    ctx.alphabet("rejected_command_lines", json!(rej.len()));
    let idx: Vec<usize> = (0..cfgs.len()).collect();
    par_jobs(ctx, &idx, |i, l| {
        judge(ctx, l, &cfgs[*i], &format!("a{}", i));
    });
    let idx: Vec<usize> = (0..rej.len()).collect();
    par_jobs(ctx, &idx, |i, l| {
        judge_rejected(ctx, l, &rej[*i], &format!("r{}", i));
    });
    // the clock-dependent defaults, under three answers for "today"
    let mut tj = vec![];
    for (mi, m) in METHOD_NAMES.iter().enumerate() {
        for zone in 0..TODAY_ZONES.len() {
            for variant in [0i64, 1, 2, 30, -1] {
                if quick && (mi + zone + variant.unsigned_abs() as usize) % 2 != 0 {
                    continue;
                }
                tj.push((m.to_string(), Site::new([21.4233, -33.9, 58.3][(mi + zone) % 3], [39.8233, -77.2086][mi % 2], 0.0, [3.0, -5.0, 5.75][zone]), zone, variant));
            }
        }
    }
    ctx.alphabet("clock_dependent_defaults", json!({"cases": tj.len(), "TZ": TODAY_ZONES.iter().map(|z| z.0).collect::<Vec<_>>(), "variants": "no dates; only -n today+1 / +2 / +30; only -n yesterday"}));
    let idx: Vec<usize> = (0..tj.len()).collect();
    par_jobs(ctx, &idx, |i, l| {
        let (m, site, zone, variant) = &tj[*i];
        judge_today(ctx, l, m, *site, *zone, *variant, &format!("t{}", i));
    });
    let rf = rejected_files();
    ctx.alphabet("rejected_parameter_files", json!(rf.iter().map(|x| x.0.clone()).collect::<Vec<_>>()));
    let idx: Vec<usize> = (0..rf.len()).collect();
    par_jobs(ctx, &idx, |i, l| {
        judge_rejected_file(ctx, l, &rf[*i].0, &rf[*i].1, &format!("f{}", i));
    });
    let _ = std::fs::remove_dir_all(format!("{}/target/tmp/c19", verif_dir()));
}

pub fn replay(ctx: &Ctx, _clause: &str, case: &Value) {
    let mut l = Local::default();
    if case["kind"] == "rejected_file" {
        let content: Option<String> = serde_json::from_value(case["content"].clone()).unwrap_or(None);
        judge_rejected_file(ctx, &mut l, case["what"].as_str().unwrap_or(""), &content, "replay");
    } else if case["kind"] == "today" {
        let site: Site = serde_json::from_value(case["site"].clone()).unwrap();
        judge_today(ctx, &mut l, case["method"].as_str().unwrap(), site, case["zone"].as_u64().unwrap() as usize, case["variant"].as_i64().unwrap(), "replay");
    } else if case["kind"] == "rejected" {
        let args: Vec<String> = serde_json::from_value(case["args"].clone()).unwrap();
        judge_rejected(ctx, &mut l, &args, "replay");
    } else {
        let c: Cfg = serde_json::from_value(case["cfg"].clone()).unwrap();
        println!("  args: {:?}", c.args());
        judge(ctx, &mut l, &c, "replay");
    }
}
