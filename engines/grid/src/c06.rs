//! C06 A time is reported Invalid exactly when the solar event does not occur.
use crate::common::*;
use crate::refm;
use chrono::NaiveDate;
use islamic_prayer_times::*;
use serde_json::{json, Value};

pub const EXEMPT: f64 = 0.05;

pub fn judge(ctx: &Ctx, l: &mut Local, p: &Params, site: Site, date: NaiveDate) {
    judge_w(ctx, l, p, site, date, None)
}
/// `w`: weather supplied by the caller (whether an event occurs is geometry, not weather)
pub fn judge_w(ctx: &Ctx, l: &mut Local, p: &Params, site: Site, date: NaiveDate, w: Option<(f64, f64)>) {
    use Prayer::*;
    let r = pt(p, site.loc(), date, w.map(|(a, b)| weather(a, b)));
    l.evals += 1;
    let case = || PtCase::new(p, site, date).with_weather(w);
    let dec0 = refm::dec_local_midnight(date, site.gmt);
    let hmin = -90.0 + (site.lat + dec0).abs();
    let hmax = 90.0 - (site.lat - dec0).abs();
    if r[&Dhuhr].is_err() {
        ctx.violation("dhuhr_always_valid", &case().key(), case().to_value(), json!({"result": fmt_r(&r)}));
    }
    let fa = p.angles[&Fajr];
    let ia = p.angles[&Isha];
    let k = p.asr_shadow_ratio as u8 as f64;
    let asr_alt = (1.0 / (k + (site.lat - dec0).abs().to_radians().tan())).atan().to_degrees();
    let mut list = vec![(Fajr, -fa), (Isha, -ia), (Imsaak, -(fa + p.angles[&Imsaak])), (Shurooq, -0.8333), (Maghrib, -0.8333)];
    if hmax > EXEMPT {
        list.push((Asr, asr_alt));
    }
    let mut interesting = false;
    for (pr, a) in list {
        let exists = if a > hmin + EXEMPT && a < hmax - EXEMPT {
            Some(true)
        } else if a < hmin - EXEMPT || a > hmax + EXEMPT {
            Some(false)
        } else {
            l.count("exempt_within_0.05_deg_of_boundary", 1);
            None
        };
        if (a - hmin).abs() < 2.0 || (a - hmax).abs() < 2.0 || exists == Some(false) {
            interesting = true;
        }
        if let Some(e) = exists {
            if e {
                l.count("judged_must_be_valid", 1);
            } else {
                l.count("judged_must_be_invalid", 1);
            }
            if r[&pr].is_ok() != e {
                ctx.violation(
                    if e { "existing_event_withheld" } else { "nonexistent_event_fabricated" },
                    &format!("{:?}_{}", pr, case().key()),
                    case().to_value(),
                    json!({"prayer": format!("{:?}", pr), "defining_altitude": a, "sun_min_altitude": hmin, "sun_max_altitude": hmax, "result": fmt_r(&r)}),
                );
            }
        }
    }
    if interesting {
        l.nontrivial += 1;
        if ctx.want_sample() && site.lat.abs() > 60.0 && date.format("%d").to_string() == "15" {
            ctx.sample(json!({"site": site, "date": date_json(date), "sun_min_altitude": hmin, "sun_max_altitude": hmax, "result": fmt_r(&r)}));
        }
    }
}

pub fn explore(ctx: &Ctx) {
    let quick = ctx.tier == Tier::Quick;
    ctx.rule("every (site, date, method) enumerated once; non-trivial = at least one of the six defining altitudes lies within 2 deg of the Sun's daily altitude extremes or the event does not occur (i.e. the validity decision is actually exercised)");
    ctx.assume("Sun's daily extremes from the reference declination at 0 h local: h_min = -90 + |lat+dec|, h_max = 90 - |lat-dec|; events within 0.05 deg of an extreme are exempt, as the property states");
    ctx.assume("interval-defined Fajr/Isha (none among ANGLE6) are outside the property");
    let all = d_all();
    let lats = [0.0, 45.0, -45.0, 48.5, -48.5, 55.0, -55.0, 60.0, -60.0, 64.0, -64.0, 66.56, -66.56, 70.0, -70.0, 80.0, -80.0, 89.5, -89.5];
    let zs: Vec<(f64, f64)> = if quick { vec![(25.0, 2.0)] } else { vec![(-150.0, -10.0), (-77.2086, -5.0), (25.0, 2.0), (151.2, 10.0)] };
    let methods: Vec<Method> = if quick { vec![Method::Mwl, Method::Hanafi] } else { ANGLE6.to_vec() };
    let mut jobs = vec![];
    for &lat in &lats {
        for &(lon, gmt) in &zs {
            for &m in &methods {
                jobs.push((Site::new(lat, lon, 0.0, gmt), params_conv(m)));
            }
        }
    }
    for (lat, lon, gmt) in [(55.0, 0.0, 9.0), (-64.0, 120.0, -4.0), (70.0, -60.0, 6.0), (-80.0, -150.0, 2.0)] {
        jobs.push((Site::new(lat, lon, 0.0, gmt), params_conv(Method::Mwl)));
    }
    for (i, s) in off_lattice_sites(false, 90.0).into_iter().enumerate() {
        if !quick || s.lat.abs() > 45.0 {
            jobs.push((s, params_conv(ANGLE6[i % 6])));
        }
    }
    ctx.alphabet("sites_x_methods", json!({"off_lattice_sites": "all of common::off_lattice_sites (quick: those beyond 45 deg)", "far_zone_sites": 4, "jobs": jobs.len(), "lats": lats, "zones": zs, "methods": methods.iter().map(|m| format!("{:?}", m)).collect::<Vec<_>>()}));
    ctx.alphabet("dates", json!({"range": "1600-01-01..2399-12-31", "count": all.len()}));
    par_jobs(ctx, &jobs, |(site, p), l| {
        for &d in &all {
            judge(ctx, l, p, *site, d);
        }
    });
    // custom angle triples (Fajr, Isha, Imsaak): the defining altitude follows the configured angles
    let triples = [(18.0, 17.0, 0.5), (18.0, 17.0, 3.0), (15.0, 15.0, 4.0), (13.7, 17.2, 2.2), (9.0, 21.0, 1.0), (21.0, 9.0, 3.0)];
    let mut jobs_c = vec![];
    for &lat in &[45.0, 48.7, -48.7, 50.6, -50.6, 55.0, -55.0, 58.3, 60.0, -60.0, 64.0] {
        for (i, &(fa, ia, im)) in triples.iter().enumerate() {
            if quick && (i + (lat as f64).abs() as usize) % 2 != 0 {
                continue;
            }
            let mut p = params_conv(Method::Mwl);
            p.angles.insert(Prayer::Fajr, fa);
            p.angles.insert(Prayer::Isha, ia);
            p.angles.insert(Prayer::Imsaak, im);
            jobs_c.push((Site::new(lat, 25.0, 0.0, 2.0), p));
        }
    }
    let yc = dates_of_years(if quick { &[1687, 2023] } else { &YEARS6 });
    ctx.alphabet("custom_angle_triples_fajr_isha_imsaak", json!({"triples": triples, "jobs": jobs_c.len(), "dates": yc.len()}));
    par_jobs(ctx, &jobs_c, |(site, p), l| {
        for &d in &yc {
            judge(ctx, l, p, *site, d);
        }
    });
    // weather supplied by the caller: validity must not depend on it (refraction models move a rise/set
    // by seconds, they do not create or remove one outside the exempt band)
    let ws: Vec<(f64, f64)> = if quick { vec![(1045.0, -60.0), (600.0, -30.0), (900.0, 30.0)] } else { vec![(1045.0, -60.0), (600.0, -30.0), (900.0, 30.0), (100.0, 57.0), (1050.0, -90.0), (1010.0, 14.0)] };
    let mut jobs_w = vec![];
    for &lat in &[60.0, 64.0, -64.0, 65.7, 66.56, -66.56, 67.4, 70.0, -70.0, 80.0, 89.5] {
        for &w in &ws {
            jobs_w.push((Site::new(lat, 25.0, 0.0, 2.0), w));
        }
    }
    let yw = dates_of_years(if quick { &[2023] } else { &[1650, 2023, 2380] });
    ctx.alphabet("caller_weather", json!({"pressure_temperature": ws, "jobs": jobs_w.len(), "dates": yw.len(), "method": "Mwl"}));
    let pw = params_conv(Method::Mwl);
    par_jobs(ctx, &jobs_w, |(site, w), l| {
        for &d in &yw {
            judge_w(ctx, l, &pw, *site, d, Some(*w));
        }
    });
}

pub fn replay(ctx: &Ctx, _clause: &str, case: &Value) {
    let c: PtCase = serde_json::from_value::<PtCase>(case.clone()).map(PtCase::fix).expect("case");
    let mut l = Local::default();
    judge_w(ctx, &mut l, &c.params, c.site, c.date, c.weather);
    println!("  result: {}", fmt_r(&c.run()));
}
