//! C20 Clock times are consistent across time zones and meridians (pairs of calls).
use crate::common::*;
use chrono::NaiveDate;
use islamic_prayer_times::*;
use serde_json::{json, Value};

pub const TOL_S: i64 = 10;
/// The library reports, for each civil date, the transit/rise/set that falls inside the 24 h window
/// starting at local midnight, and derives Fajr/Isha/Asr/Imsaak from that day's Dhuhr. When a shift
/// moves such an anchor event across the window boundary the second call reports the neighbouring
/// day's event - a different physical event, outside what the property compares. Comparisons whose
/// anchor lands within this margin of the boundary (or beyond it) are therefore exempt, per prayer.
pub const WINDOW_MARGIN_S: i64 = 300;

#[derive(Clone, Copy, Debug)]
pub enum Shift {
    Gmt(f64),
    LonGmt(f64, f64),
}
pub const SHIFTS: [Shift; 6] = [Shift::Gmt(-1.0), Shift::Gmt(-0.5), Shift::Gmt(0.5), Shift::Gmt(1.0), Shift::LonGmt(15.0, 1.0), Shift::LonGmt(-15.0, -1.0)];

pub fn shifted(site: Site, s: Shift) -> Option<(Site, i64)> {
    let (lon, gmt, move_s) = match s {
        Shift::Gmt(d) => (site.lon, site.gmt + d, (d * 3600.0) as i64),
        Shift::LonGmt(dl, dg) => (site.lon + dl, site.gmt + dg, 0),
    };
    if !(-180.0..=180.0).contains(&lon) || !(-12.0..=12.0).contains(&gmt) {
        return None;
    }
    Some((Site::new(site.lat, lon, site.elev, gmt), move_s))
}

pub fn judge(ctx: &Ctx, l: &mut Local, p: &Params, site: Site, date: NaiveDate, r: &R, s: Shift) {
    let Some((site2, mv)) = shifted(site, s) else { return };
    let r2 = pt(p, site2.loc(), date, None);
    l.evals += 1;
    l.nontrivial += 1;
    let case = || PtCase::new(p, site, date).with_extra(json!({"shift": format!("{:?}", s), "shifted_site": site2}));
    // anchor of each prayer: the window-placed event its value is derived from
    let anchor = |pr: Prayer| -> Prayer {
        use Prayer::*;
        match pr {
            Shurooq | Maghrib | Dhuhr => pr,
            Fajr | Imsaak if p.intervals[&Fajr] != 0.0 => Shurooq,
            Isha if p.intervals[&Isha] != 0.0 => Maghrib,
            _ => Dhuhr,
        }
    };
    let stays_inside = |pr: Prayer| -> bool {
        match secs(r, anchor(pr)) {
            Some(a) => (WINDOW_MARGIN_S..86400 - WINDOW_MARGIN_S).contains(&(a + mv)) && (WINDOW_MARGIN_S..86400 - WINDOW_MARGIN_S).contains(&a),
            None => true,
        }
    };
    for pr in SEQ7 {
        if !stays_inside(pr) {
            l.count("comparisons_exempt_anchor_event_crosses_the_local_midnight_window", 1);
            continue;
        }
        l.count("comparisons_judged", 1);
        match (secs(r, pr), secs(&r2, pr)) {
            (Some(a), Some(b)) => {
                let d = cyc(b - a - mv);
                l.margin(if mv == 0 { "meridian_shift_difference_s" } else { "gmt_shift_difference_s" }, d as f64);
                if d.abs() > TOL_S {
                    ctx.violation(if mv == 0 { "moving_15_deg_east_and_plus_1_h_keeps_clock_times" } else { "gmt_shift_moves_every_time_by_d_hours" }, &format!("{:?}_{:?}_{}", pr, s, case().key()), case().to_value(), json!({"prayer": format!("{:?}", pr), "shift": format!("{:?}", s), "difference_s": d, "tolerance_s": TOL_S, "base": fmt_r(r), "shifted": fmt_r(&r2)}));
                }
            }
            (None, None) => {}
            _ => {
                ctx.violation("validity_unchanged", &format!("{:?}_{:?}_{}", pr, s, case().key()), case().to_value(), json!({"prayer": format!("{:?}", pr), "base": fmt_r(r), "shifted": fmt_r(&r2)}));
            }
        }
    }
    if ctx.want_sample() && date == ymd(2024, 3, 20) {
        ctx.sample(json!({"site": site, "shift": format!("{:?}", s), "date": date_json(date), "base": fmt_r(r), "shifted": fmt_r(&r2)}));
    }
}

pub fn explore(ctx: &Ctx) {
    // call sequences from non-initial states (see history.rs)
    crate::history::explore(ctx, "place_time", &crate::history::alphabet_place_time(), 3);
    let quick = ctx.tier == Tier::Quick;
    ctx.rule("every (site, date, method, shift) is one pair of calls; all pairs are distinct; non-trivial = the shifted site is in range, so the pair was run and its entries compared (per-prayer exemptions counted in counters)");
    ctx.assume("|d| <= 1 h: the tolerance is the Sun's own motion during the shifted interval and scales with d");
    ctx.assume("a prayer is compared only if its anchor event (its own transit/rise/set, or the Dhuhr / Shurooq / Maghrib it is derived from) stays at least 300 s inside the 24 h local-midnight window in both calls; otherwise the two calls report different physical events (yesterday's/tomorrow's) - outside what the property compares");
    ctx.assume("differences of truncated whole seconds: |observed| <= 10 is implied by a true difference <= 10 s");
    let lats: Vec<f64> = if quick { vec![0.0, 30.0, -30.0, 45.0, -45.0] } else { vec![0.0, 15.0, -15.0, 30.0, -30.0, 45.0, -45.0] };
    let lon_step = if quick { 60.0 } else { 30.0 };
    let mut sites = vec![];
    let mut lon = -180.0;
    while lon <= 180.0 {
        for dz in if quick { vec![0.0, 2.0, -7.0, 11.0] } else { vec![0.0, 2.0, -2.0, 6.0, -7.0, 11.0, -11.5] } {
            let g = ((lon / 15.0f64).round() + dz).clamp(-12.0, 12.0);
            for &lat in &lats {
                let s = Site::new(lat, lon, 0.0, g);
                if !sites.contains(&s) {
                    sites.push(s);
                }
            }
        }
        lon += lon_step;
    }
    let seam = d_seam(1600, 2399);
    let all = d_all();
    ctx.alphabet("sites", json!({"count": sites.len(), "lats": lats, "lon_step": lon_step, "base_gmt": if quick { "round(lon/15) + {0, +2, -7, +11} clipped to [-12, 12]" } else { "round(lon/15) + {0, +2, -2, +6, -7, +11, -11.5} clipped to [-12, 12]" }}));
    ctx.alphabet("shifts", json!(SHIFTS.iter().map(|s| format!("{:?}", s)).collect::<Vec<_>>()));
    // part 1: seam dates x all sites x one method (quick) / all dates (thorough)
    let p1 = params_conv(Method::Mwl);
    let d1 = &seam;
    ctx.alphabet("part1", json!({"method": "Mwl", "dates": d1.len(), "sites": sites.len()}));
    par_jobs(ctx, &sites, |site, l| {
        for &d in d1.iter() {
            let r = pt(&p1, site.loc(), d, None);
            l.evals += 1;
            for s in SHIFTS {
                judge(ctx, l, &p1, *site, d, &r, s);
            }
        }
    });
    // part 2: all methods on the seam dates, thinned sites
    let mut jobs = vec![];
    for s in sites.iter().step_by(if quick { 16 } else { 2 }) {
        for m in METHODS9 {
            jobs.push((*s, params_conv(m)));
        }
    }
    ctx.alphabet("part2", json!({"methods": 9, "sites": jobs.len() / 9, "dates": seam.len()}));
    par_jobs(ctx, &jobs, |(site, p), l| {
        for &d in &seam {
            let r = pt(p, site.loc(), d, None);
            l.evals += 1;
            for s in SHIFTS {
                judge(ctx, l, p, *site, d, &r, s);
            }
        }
    });
    // part 3: every date for a subset of the sites
    {
        let few: Vec<Site> = if quick { vec![Site::new(45.0, 0.0, 0.0, 0.0), Site::new(-45.0, 135.0, 0.0, 11.0)] } else { sites.iter().cloned().step_by(11).collect() };
        ctx.alphabet("part3", json!({"sites": few, "dates": all.len()}));
        let mut jobs3 = vec![];
        for s in &few {
            for c in all.chunks(20000) {
                jobs3.push((*s, c.to_vec()));
            }
        }
        par_jobs(ctx, &jobs3, |(site, ds), l| {
            for &d in ds {
                let r = pt(&p1, site.loc(), d, None);
                l.evals += 1;
                for s in SHIFTS {
                    judge(ctx, l, &p1, *site, d, &r, s);
                }
            }
        });
    }
}

pub fn replay(ctx: &Ctx, _clause: &str, case: &Value) {
    let c: PtCase = serde_json::from_value::<PtCase>(case.clone()).map(PtCase::fix).expect("case");
    let mut l = Local::default();
    let r = c.run();
    for s in SHIFTS {
        if format!("{:?}", s) == c.extra["shift"].as_str().unwrap_or("") {
            judge(ctx, &mut l, &c.params, c.site, c.date, &r, s);
        }
    }
}
