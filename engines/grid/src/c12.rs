//! C12 Each parameter affects only the times it is documented to affect (pairs of calls).
use crate::common::*;
use chrono::NaiveDate;
use islamic_prayer_times::*;
use serde_json::{json, Value};

pub const OFFSETS: [f64; 6] = [-90.0, -30.0, -1.0, 1.0, 30.0, 90.0];
/// incl. values that are special only to the code: 1.5 (the default Imsaak lead), 0.5
pub const INTERVALS: [f64; 6] = [0.5, 1.0, 1.5, 45.0, 90.0, 120.0];
pub const WEATHERS: [(f64, f64); 5] = [(100.0, -90.0), (1050.0, 57.0), (1050.0, -90.0), (100.0, 57.0), (1010.0, 14.0)];

fn call(p: &Params, site: Site, date: NaiveDate, w: Option<(f64, f64)>, l: &mut Local) -> R {
    l.evals += 1;
    pt(p, site.loc(), date, w.map(|(a, b)| weather(a, b)))
}
fn clean(r: &R) -> bool {
    SEQ7.iter().all(|k| matches!(r[k], Ok(t) if !t.extreme))
}
/// prayers whose entries differ between two results
fn changed(a: &R, b: &R) -> Vec<Prayer> {
    SEQ7.into_iter().filter(|k| a[k] != b[k]).collect()
}

pub fn judge(ctx: &Ctx, l: &mut Local, p: &Params, site: Site, date: NaiveDate) {
    use Prayer::*;
    let r = call(p, site, date, None, l);
    let pol_none = p.extreme_latitude_method == ExtremeLatitudeMethod::None;
    let viol = |clause: &str, q: &Params, w: Option<(f64, f64)>, what: Value, r2: &R| {
        let c = PtCase::new(q, site, date).with_weather(w).with_extra(json!({"base_params": serde_json::to_value(p).unwrap(), "perturbation": what}));
        ctx.violation(clause, &format!("{}_{}", what, c.key()), c.to_value(), json!({"perturbation": what, "base": fmt_r(&r), "perturbed": fmt_r(r2)}));
    };
    l.nontrivial += 1;
    // (a) minute offsets
    for key in SEQ7 {
        for m in OFFSETS {
            let mut q = p.clone();
            q.minutes.insert(key, m);
            let r2 = call(&q, site, date, None, l);
            let what = json!({"minutes": {format!("{:?}", key): m}});
            for pr in SEQ7 {
                let moves = key != Imsaak && (pr == key || (key == Fajr && pr == Imsaak));
                if key == Imsaak && pr == Imsaak {
                    continue; // whether the Imsaak key moves Imsaak itself is not stated
                }
                match (r[&pr], r2[&pr]) {
                    (Ok(a), Ok(b)) => {
                        let d = cyc(b.time.signed_duration_since(a.time).num_seconds());
                        // the perturbation SETS the offset: relative to a base that already has one it moves by the difference
                        let want = if moves { cyc(((m - p.minutes[&key]) * 60.0).round() as i64) } else { 0 };
                        let tol = if moves { 1 } else { 0 };
                        if cyc(d - want).abs() > tol || a.extreme != b.extreme {
                            viol("minute_offset_shifts_exactly_its_prayer", &q, None, what.clone(), &r2);
                        }
                    }
                    (Err(_), Err(_)) => {}
                    _ => viol("minute_offset_changes_validity", &q, None, what.clone(), &r2),
                }
            }
        }
    }
    // (b) intervals
    for i in INTERVALS {
        // Isha interval
        let mut q = p.clone();
        q.intervals.insert(Isha, i);
        let r2 = call(&q, site, date, None, l);
        let what = json!({"intervals": {"Isha": i}});
        match (secs(&r2, Maghrib), secs(&r2, Isha)) {
            (Some(m), Some(s)) => {
                // offsets shift exactly their own prayer: the interval relates the times net of their offsets
                let net = ((p.minutes[&Isha] - p.minutes[&Maghrib]) * 60.0).round() as i64;
                if cyc(s - m - net - (i * 60.0) as i64).abs() > 1 {
                    viol("isha_interval_is_maghrib_plus_interval", &q, None, what.clone(), &r2);
                }
            }
            (Some(_), None) => viol("isha_interval_is_maghrib_plus_interval", &q, None, what.clone(), &r2),
            _ => {}
        }
        if changed(&r, &r2).iter().any(|k| *k != Isha) {
            viol("isha_interval_touches_only_isha", &q, None, what, &r2);
        }
        // Fajr interval
        let mut q = p.clone();
        q.intervals.insert(Fajr, i);
        let r2 = call(&q, site, date, None, l);
        let what = json!({"intervals": {"Fajr": i}});
        match (secs(&r2, Shurooq), secs(&r2, Fajr)) {
            (Some(s), Some(f)) => {
                let net = ((p.minutes[&Shurooq] - p.minutes[&Fajr]) * 60.0).round() as i64;
                if cyc(s - f - net - (i * 60.0) as i64).abs() > 1 {
                    viol("fajr_interval_is_shurooq_minus_interval", &q, None, what.clone(), &r2);
                }
            }
            (Some(_), None) => viol("fajr_interval_is_shurooq_minus_interval", &q, None, what.clone(), &r2),
            _ => {}
        }
        if changed(&r, &r2).iter().any(|k| *k != Fajr && *k != Imsaak) {
            viol("fajr_interval_touches_only_fajr_and_imsaak", &q, None, what, &r2);
        }
        // Imsaak interval
        let mut q = p.clone();
        q.intervals.insert(Imsaak, i);
        let r2 = call(&q, site, date, None, l);
        let what = json!({"intervals": {"Imsaak": i}});
        match (r2[&Fajr], r2[&Imsaak]) {
            (Ok(f), Ok(im)) => {
                let d = cyc(f.time.signed_duration_since(im.time).num_seconds() - (i * 60.0) as i64);
                if d.abs() > 1 || (f.extreme && !im.extreme) {
                    viol("imsaak_interval_is_fajr_minus_interval", &q, None, what.clone(), &r2);
                }
            }
            (Ok(_), Err(_)) => viol("imsaak_interval_is_fajr_minus_interval", &q, None, what.clone(), &r2),
            _ => {}
        }
        if changed(&r, &r2).iter().any(|k| *k != Imsaak) {
            viol("imsaak_interval_touches_only_imsaak", &q, None, what, &r2);
        }
    }
    // (d) Fajr extreme => Imsaak 1.5 min before it and extreme
    if let Ok(f) = r[&Fajr] {
        if f.extreme {
            l.count("extreme_fajr_cases", 1);
            // (an Imsaak interval, where configured, stays the definition: Fajr - interval)
            let gap = if p.intervals[&Imsaak] != 0.0 { (p.intervals[&Imsaak] * 60.0).round() as i64 } else { 90 };
            let ok = matches!(r[&Imsaak], Ok(im) if im.extreme && cyc(f.time.signed_duration_since(im.time).num_seconds() - gap).abs() <= 1);
            if !ok {
                viol("extreme_fajr_gives_imsaak_90s_before_and_extreme", p, None, json!("none"), &r);
            }
        }
    }
    // (e) school
    let mut q = p.clone();
    q.asr_shadow_ratio = if p.asr_shadow_ratio == AsrShadowRatio::Shafi { AsrShadowRatio::Hanafi } else { AsrShadowRatio::Shafi };
    let r2 = call(&q, site, date, None, l);
    if pol_none || (clean(&r) && clean(&r2)) {
        if changed(&r, &r2).iter().any(|k| *k != Asr) {
            viol("school_changes_only_asr", &q, None, json!("other_school"), &r2);
        }
        if r[&Asr].is_ok() && r[&Asr] == r2[&Asr] {
            viol("school_changes_asr", &q, None, json!("other_school"), &r2);
        }
    }
    // (f) angles (only for angle-defined Fajr/Isha)
    for delta in [-1.0, 1.0] {
        if p.intervals[&Fajr] == 0.0 && p.angles[&Fajr] + delta >= 0.0 {
            let mut q = p.clone();
            q.angles.insert(Fajr, p.angles[&Fajr] + delta);
            let r2 = call(&q, site, date, None, l);
            if (pol_none || (clean(&r) && clean(&r2))) && changed(&r, &r2).iter().any(|k| *k != Fajr && *k != Imsaak) {
                viol("fajr_angle_changes_only_fajr_and_imsaak", &q, None, json!({"fajr_angle_delta": delta}), &r2);
            }
        }
        if p.intervals[&Isha] == 0.0 && p.angles[&Isha] + delta >= 0.0 {
            let mut q = p.clone();
            q.angles.insert(Isha, p.angles[&Isha] + delta);
            let r2 = call(&q, site, date, None, l);
            if (pol_none || (clean(&r) && clean(&r2))) && changed(&r, &r2).iter().any(|k| *k != Isha) {
                viol("isha_angle_changes_only_isha", &q, None, json!({"isha_angle_delta": delta}), &r2);
            }
        }
    }
    // (g) weather
    for w in WEATHERS {
        let r2 = call(p, site, date, Some(w), l);
        if pol_none || (clean(&r) && clean(&r2)) {
            let allowed = |k: Prayer| matches!(k, Shurooq | Maghrib) || (p.intervals[&Fajr] != 0.0 && matches!(k, Fajr | Imsaak)) || (p.intervals[&Isha] != 0.0 && k == Isha);
            if changed(&r, &r2).iter().any(|k| !allowed(*k)) {
                viol("weather_changes_only_rise_set_derived_times", p, Some(w), json!({"weather": [w.0, w.1]}), &r2);
            }
        }
        if w == (1010.0, 14.0) && r2 != r {
            viol("absent_weather_equals_default_weather", p, Some(w), json!({"weather": [w.0, w.1]}), &r2);
        }
    }
    if ctx.want_sample() && date.format("%d").to_string() == "01" {
        ctx.sample(json!({"site": site, "date": date_json(date), "params": params_key(p), "base_result": fmt_r(&r), "perturbations_per_case": "42 minute offsets, 12 intervals, school, +-1 deg angles, 5 weather points"}));
    }
}

pub fn explore(ctx: &Ctx) {
    let quick = ctx.tier == Tier::Quick;
    crate::history::explore(ctx, "params", &crate::history::alphabet_params(), 3);
    crate::history::explore(ctx, "place_time", &crate::history::alphabet_place_time(), 2);
    crate::history::explore(ctx, "policy", &crate::history::alphabet_policy(), 2);
    ctx.rule("each (site, date, method, policy) is one case consisting of the base call and every single-parameter perturbation of it (42 minute offsets, 18 intervals, other school, +-1 deg Fajr/Isha angle, 5 weather points); every case is distinct and non-trivial (all perturbation clauses judged)");
    ctx.assume("angle/school/weather locality judged under policy None, and under the default policy only when both runs have no invalid/extreme entry (a fallback legitimately couples Fajr and Isha)");
    ctx.assume("exact equality for untouched entries; +-1 s for shifted ones (truncation)");
    ctx.assume("history independence: every call sequence up to depth 3 over the alphabets in coverage.alphabets.history_* is run on a fresh thread and every result compared with the same call made alone in a fresh process");
    let lats: [f64; 9] = [0.0, 21.4, -21.4, 39.0, -39.0, 50.0, -50.0, 62.0, -62.0];
    let zs: Vec<(f64, f64)> = if quick { vec![(39.8233, 3.0)] } else { vec![(39.8233, 3.0), (-100.0, -7.0)] };
    let dates: Vec<NaiveDate> = if quick { dates_of_years(&[2024]).into_iter().step_by(3).collect() } else { dates_of_years(&YEARS6) };
    let mut jobs = vec![];
    for &lat in &lats {
        for &(lon, gmt) in &zs {
            for m in METHODS9 {
                for pol in [ExtremeLatitudeMethod::None, ExtremeLatitudeMethod::NearestGoodDayFajrIshaInvalid, ExtremeLatitudeMethod::SeventhOfNightFajrIshaAlways, ExtremeLatitudeMethod::NearestGoodDayAllPrayersAlways] {
                    if pol == ExtremeLatitudeMethod::NearestGoodDayAllPrayersAlways && (quick && !matches!(m, Method::UmmAlQurra | Method::Mwl | Method::FixedIsha) || (lat as f64).abs() > 58.0) {
                        continue;
                    }
                    jobs.push((Site::new(lat, lon, 0.0, gmt), params(m, pol, RoundSeconds::None)));
                }
            }
        }
    }
    jobs.sort_by_key(|(s, p)| if p.extreme_latitude_method == ExtremeLatitudeMethod::NearestGoodDayFajrIshaInvalid && s.lat.abs() > 55.0 { 0 } else { 1 });
    ctx.alphabet("lats", json!(lats));
    ctx.alphabet("zones", json!(zs));
    ctx.alphabet("methods", json!(9));
    ctx.alphabet("policies", json!(["None", "NearestGoodDayFajrIshaInvalid (default)", "SeventhOfNightFajrIshaAlways", "NearestGoodDayAllPrayersAlways (|lat| <= 58)"]));
    ctx.alphabet("dates", json!({"count": dates.len(), "rule": if quick { "every 3rd day of 2024" } else { "all days of 1600,1900,2000,2023,2024,2399" }}));
    ctx.alphabet("perturbations", json!({"minute_offsets": OFFSETS, "keys": 7, "intervals": INTERVALS, "angle_deltas": [-1, 1], "weather_points": WEATHERS}));
    par_jobs(ctx, &jobs, |(site, p), l| {
        for &d in &dates {
            judge(ctx, l, p, *site, d);
        }
    });
    // deviation bound 2: the same single-parameter perturbations from bases that already deviate from the
    // method defaults in one parameter (two cooperating parameters: Fajr interval x Imsaak interval,
    // Imsaak interval x Fajr offset, ...)
    type Devn = (&'static str, fn(&mut Params));
    let devs: Vec<Devn> = vec![
        ("fajr_interval_81.25", |p| {
            p.intervals.insert(Prayer::Fajr, 81.25);
        }),
        ("isha_interval_75", |p| {
            p.intervals.insert(Prayer::Isha, 75.0);
        }),
        ("imsaak_interval_12.25", |p| {
            p.intervals.insert(Prayer::Imsaak, 12.25);
        }),
        ("fajr_offset_-17.25", |p| {
            p.minutes.insert(Prayer::Fajr, -17.25);
        }),
        ("isha_offset_9", |p| {
            p.minutes.insert(Prayer::Isha, 9.0);
        }),
        ("maghrib_offset_3", |p| {
            p.minutes.insert(Prayer::Maghrib, 3.0);
        }),
        ("shurooq_offset_-2.5", |p| {
            p.minutes.insert(Prayer::Shurooq, -2.5);
        }),
        ("imsaak_angle_2.2", |p| {
            p.angles.insert(Prayer::Imsaak, 2.2);
        }),
        ("fajr_angle_13.7", |p| {
            p.angles.insert(Prayer::Fajr, 13.7);
        }),
    ];
    let dates2: Vec<NaiveDate> = dates_of_years(&[2024]).into_iter().step_by(if quick { 15 } else { 3 }).collect();
    let mut jobs2 = vec![];
    for &lat in &[21.4, -39.0, 47.3, 56.0] {
        for m in [Method::Mwl, Method::UmmAlQurra, Method::Isna] {
            for pol in [ExtremeLatitudeMethod::None, ExtremeLatitudeMethod::NearestGoodDayFajrIshaInvalid] {
                for (name, f) in &devs {
                    let mut p = params(m, pol, RoundSeconds::None);
                    f(&mut p);
                    jobs2.push((Site::new(lat, 39.8233, 0.0, 3.0), p, *name));
                }
            }
        }
    }
    ctx.alphabet("deviating_bases", json!({"deviations": devs.iter().map(|d| d.0).collect::<Vec<_>>(), "lats": [21.4, -39.0, 47.3, 56.0], "methods": ["Mwl", "UmmAlQurra", "Isna"], "policies": ["None", "default"], "dates": dates2.len()}));
    par_jobs(ctx, &jobs2, |(site, p, _name), l| {
        for &d in &dates2 {
            judge(ctx, l, p, *site, d);
        }
        l.count("cases_from_deviating_bases", dates2.len() as u64);
    });
}

pub fn replay(ctx: &Ctx, _clause: &str, case: &Value) {
    let c: PtCase = serde_json::from_value::<PtCase>(case.clone()).map(PtCase::fix).expect("case");
    let mut l = Local::default();
    let base: Params = serde_json::from_value(c.extra["base_params"].clone()).unwrap_or(c.params.clone());
    judge(ctx, &mut l, &base, c.site, c.date);
}
