//! Engine G (grid explorer) and P (process explorer) of the islamic-prayer-times verification
//! harness. Usage: ipt-grid check <ID> <quick|thorough> | ipt-grid replay <path>
mod common;
mod history;
mod refm;
mod c01;
mod c02;
mod c03;
mod c04;
mod c05;
mod c06;
mod c07;
mod c08;
mod c09;
mod c10;
mod c11;
mod c12;
mod c13;
mod c14;
mod c16;
mod c17;
mod c18;
mod c19;
mod c20;

use common::*;
use serde_json::Value;

type Explore = fn(&Ctx);
type Replay = fn(&Ctx, &str, &Value);

fn table() -> Vec<(&'static str, &'static str, Explore, Replay)> {
    vec![
        ("C01", "exploration", c01::explore as Explore, c01::replay as Replay),
        ("C02", "exploration", c02::explore, c02::replay),
        ("C03", "exploration", c03::explore, c03::replay),
        ("C04", "exploration", c04::explore, c04::replay),
        ("C05", "exploration", c05::explore, c05::replay),
        ("C06", "exploration", c06::explore, c06::replay),
        ("C07", "fault_enumeration", c07::explore, c07::replay),
        ("C08", "exploration", c08::explore, c08::replay),
        ("C09", "exploration", c09::explore, c09::replay),
        ("C10", "exploration", c10::explore, c10::replay),
        ("C11", "exploration", c11::explore, c11::replay),
        ("C12", "exploration", c12::explore, c12::replay),
        ("C13", "exploration", c13::explore, c13::replay),
        ("C14", "exploration", c14::explore, c14::replay),
        ("C16", "exploration", c16::explore, c16::replay),
        ("C17", "exploration", c17::explore, c17::replay),
        ("C18", "exploration", c18::explore, c18::replay),
        ("C19", "exploration", c19::explore, c19::replay),
        ("C20", "exploration", c20::explore, c20::replay),
    ]
}

fn main() {
    let args: Vec<String> = std::env::args().collect();
    if args.len() < 3 {
        eprintln!("usage: ipt-grid check <ID> <quick|thorough> | ipt-grid replay <path>");
        std::process::exit(2);
    }
    // a panic inside the harness itself is a machinery failure, never a verdict
    let code = match args[1].as_str() {
        "check" => {
            let tier = match args.get(3).map(|s| s.as_str()).unwrap_or("quick") {
                "quick" => Tier::Quick,
                "thorough" => Tier::Thorough,
                x => {
                    eprintln!("unknown tier {}", x);
                    std::process::exit(2)
                }
            };
            let id = args[2].as_str();
            let Some((_, level, explore, _)) = table().into_iter().find(|t| t.0 == id) else {
                eprintln!("unknown property {}", id);
                std::process::exit(2)
            };
            refm::self_test();
            c07::install_quiet_hook();
            let ctx = Ctx::new(id, tier, level);
            let r = std::panic::catch_unwind(std::panic::AssertUnwindSafe(|| explore(&ctx)));
            if r.is_err() {
                eprintln!("MACHINERY FAILURE: the explorer itself panicked: {:?}", c07::LAST_PANIC.lock().map(|g| g.clone()));
                std::process::exit(3);
            }
            ctx.finish()
        }
        "single" => {
            // one call in a fresh process (canonical reference for the history-independence clause)
            let c: PtCase = serde_json::from_str::<PtCase>(&args[2]).map(PtCase::fix).expect("case json");
            println!("RESULT {}", serde_json::to_string(&c.run()).unwrap());
            0
        }
        "replay" => {
            let text = std::fs::read_to_string(&args[2]).unwrap_or_else(|e| {
                eprintln!("cannot read {}: {}", args[2], e);
                std::process::exit(2)
            });
            let doc: Value = serde_json::from_str(&text).expect("replay json");
            let id = doc["property"].as_str().expect("property").to_string();
            let clause = doc["clause"].as_str().unwrap_or("").to_string();
            let Some((_, level, _, replay)) = table().into_iter().find(|t| t.0 == id) else {
                eprintln!("unknown property {}", id);
                std::process::exit(2)
            };
            let mut ctx = Ctx::new(&id, Tier::Quick, level);
            ctx.replay_mode = true;
            ctx.known.clear();
            println!("replaying {} clause={} case={}", id, clause, doc["case"]);
            if clause == "result_depends_on_previous_calls" {
                c07::install_quiet_hook();
                history::replay(&ctx, &doc["case"]);
            } else {
                replay(&ctx, &clause, &doc["case"]);
            }
            let n = ctx.viol_total.load(std::sync::atomic::Ordering::Relaxed);
            if n > 0 {
                println!("REPRODUCED property={} ({} finding(s))", id, n);
                1
            } else {
                println!("NOT REPRODUCED property={} (the property holds on this case with the current tree)", id);
                0
            }
        }
        _ => 2,
    };
    std::process::exit(code);
}
