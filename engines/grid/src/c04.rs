//! C04 Asr follows the shadow-length rule of the selected school.
use crate::common::*;
use crate::refm;
use chrono::NaiveDate;
use islamic_prayer_times::*;
use serde_json::{json, Value};

pub const TOL: f64 = 0.03;

pub fn judge(ctx: &Ctx, l: &mut Local, site: Site, date: NaiveDate, method: Method) {
    let mut offs = [None, None];
    let dec0 = refm::dec_local_midnight(date, site.gmt);
    for (i, school) in [AsrShadowRatio::Shafi, AsrShadowRatio::Hanafi].into_iter().enumerate() {
        let mut p = params_conv(method);
        p.asr_shadow_ratio = school;
        let r = pt(&p, site.loc(), date, None);
        l.evals += 1;
        let case = || PtCase::new(&p, site, date);
        let k = (i + 1) as f64;
        let Some(o) = off(&r, Prayer::Asr) else {
            if site.lat.abs() <= 60.0 {
                ctx.violation("asr_reported_below_60", &case().key(), case().to_value(), json!({"result": fmt_r(&r)}));
            }
            continue;
        };
        offs[i] = Some(o);
        l.nontrivial += 1;
        let z = (site.lat - dec0).abs();
        if z < 0.5 {
            l.count("cases_with_sun_near_zenith_lat_eq_dec", 1);
        }
        let want = (1.0 / (k + z.to_radians().tan())).atan().to_degrees();
        let e = refm::alt_from(site.lat, dec0, o as f64 / 240.0) - want;
        l.margin("asr_altitude_error_deg", e);
        if e.abs() > TOL {
            ctx.violation("asr_shadow_altitude", &case().key(), case().to_value(), json!({"school": format!("{:?}", school), "error_deg": e, "required_altitude": want, "tolerance": TOL, "result": fmt_r(&r)}));
        }
        let om = off(&r, Prayer::Maghrib);
        if !(o > 0 && om.map(|m| o < m).unwrap_or(true)) {
            ctx.violation("asr_between_dhuhr_and_maghrib", &case().key(), case().to_value(), json!({"asr_offset_s": o, "maghrib_offset_s": om, "result": fmt_r(&r)}));
        }
        if ctx.want_sample() && date == ymd(2024, 5, 28) {
            ctx.sample(json!({"site": site, "date": date_json(date), "school": format!("{:?}", school), "result": fmt_r(&r), "required_altitude_deg": want}));
        }
    }
    if let [Some(s), Some(h)] = offs {
        if h <= s {
            let mut p = params_conv(method);
            p.asr_shadow_ratio = AsrShadowRatio::Hanafi;
            let case = PtCase::new(&p, site, date);
            ctx.violation("hanafi_strictly_later_than_shafi", &case.key(), case.to_value(), json!({"shafi_offset_s": s, "hanafi_offset_s": h}));
        }
    }
}

pub fn explore(ctx: &Ctx) {
    let quick = ctx.tier == Tier::Quick;
    ctx.rule("every (site, date, school) enumerated once; non-trivial = Asr reported and judged against arccot(k + tan|lat-dec|) with the reference declination; cases with |lat-dec| < 0.5 deg counted separately");
    ctx.assume("'that date's declination' = reference declination at 0 h local time of the civil date; hour angle = 15 deg x (Asr - Dhuhr)");
    let all = d_all();
    let lats = [0.0, 5.0, -5.0, 15.0, -15.0, 23.44, -23.44, 30.0, -30.0, 45.0, -45.0, 60.0, -60.0];
    let zs: Vec<(f64, f64)> = if quick { vec![(-77.2086, -5.0), (39.8233, 3.0), (151.2, 10.0)] } else { vec![(-180.0, -12.0), (-77.2086, -5.0), (-120.0, -5.0), (0.0, 0.0), (39.8233, 3.0), (82.5, 5.5), (151.2, 10.0), (180.0, 9.0)] };
    let mut jobs = vec![];
    let mut n = 0;
    for &lat in &lats {
        for &(lon, gmt) in &zs {
            n += 1;
            if quick && n % 2 != 0 {
                continue;
            }
            jobs.push(Site::new(lat, lon, 0.0, gmt));
        }
    }
    for (lat, lon, gmt) in [(30.0, 0.0, 9.0), (-45.0, 120.0, -4.0), (15.0, -60.0, 6.0), (-23.44, -150.0, 2.0)] {
        jobs.push(Site::new(lat, lon, 0.0, gmt));
    }
    jobs.extend(off_lattice_sites(quick, 60.0));
    ctx.alphabet("sites", json!({"off_lattice_sites": off_lattice_sites(quick, 60.0), "count": jobs.len(), "lats": lats, "zones": zs, "far_zone_sites": 4}));
    ctx.alphabet("dates", json!({"range": "1600-01-01..2399-12-31", "count": all.len()}));
    ctx.alphabet("schools", json!(["Shafi", "Hanafi"]));
    par_jobs(ctx, &jobs, |site, l| {
        for &d in &all {
            judge(ctx, l, *site, d, Method::Mwl);
        }
    });
    // all methods on selected years (the method must not matter for Asr beyond the school)
    let yd = dates_of_years(if quick { &[2024] } else { &YEARS6 });
    let mut jobs2 = vec![];
    for s in jobs.iter().step_by(3) {
        for m in METHODS9 {
            jobs2.push((*s, m));
        }
    }
    ctx.alphabet("methods_part", json!({"jobs": jobs2.len(), "dates": yd.len()}));
    par_jobs(ctx, &jobs2, |(site, m), l| {
        for &d in &yd {
            judge(ctx, l, *site, d, *m);
        }
    });
}

pub fn replay(ctx: &Ctx, _clause: &str, case: &Value) {
    let c: PtCase = serde_json::from_value::<PtCase>(case.clone()).map(PtCase::fix).expect("case");
    let mut l = Local::default();
    // the method only matters through angles; recover it by matching the stored params
    let m = METHODS9.into_iter().find(|m| Params::new(*m).angles == c.params.angles && Params::new(*m).intervals == c.params.intervals).unwrap_or(Method::Mwl);
    judge(ctx, &mut l, c.site, c.date, m);
    println!("  result: {}", fmt_r(&c.run()));
}
