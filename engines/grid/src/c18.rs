//! C18 Validated quantities hold only in-range values, however they are constructed.
use crate::common::*;
use islamic_prayer_times::*;
use serde_json::{json, Value};

pub trait Q: Sized + Copy + TryFrom<f64> + Into<f64> + serde::de::DeserializeOwned + serde::Serialize + 'static {
    const NAME: &'static str;
    const MIN: f64;
    const MAX: f64;
    /// text route; None when the type has none
    fn parse(s: &str) -> Option<Result<Self, String>>;
}
macro_rules! q_text {
    ($t:ty, $n:expr, $lo:expr, $hi:expr) => {
        impl Q for $t {
            const NAME: &'static str = $n;
            const MIN: f64 = $lo;
            const MAX: f64 = $hi;
            fn parse(s: &str) -> Option<Result<Self, String>> {
                Some(s.parse::<$t>().map_err(|e| e.to_string()))
            }
        }
    };
}
macro_rules! q_notext {
    ($t:ty, $n:expr, $lo:expr, $hi:expr) => {
        impl Q for $t {
            const NAME: &'static str = $n;
            const MIN: f64 = $lo;
            const MAX: f64 = $hi;
            fn parse(_s: &str) -> Option<Result<Self, String>> {
                None
            }
        }
    };
}
q_text!(Latitude, "Latitude", -90.0, 90.0);
q_text!(Longitude, "Longitude", -180.0, 180.0);
q_text!(Elevation, "Elevation", -420.0, 8848.0);
q_text!(Gmt, "Gmt", -12.0, 12.0);
q_notext!(Pressure, "Pressure", 100.0, 1050.0);
q_notext!(Temperature, "Temperature", -90.0, 57.0);

fn in_range<T: Q>(v: f64) -> bool {
    v.is_finite() && v >= T::MIN && v <= T::MAX
}

fn quiet<R>(f: impl FnOnce() -> R) -> Result<R, String> {
    std::panic::catch_unwind(std::panic::AssertUnwindSafe(f)).map_err(|_| crate::c07::take_panic_msg())
}

/// number route
fn judge_number<T: Q>(ctx: &Ctx, l: &mut Local, v: f64) -> Option<bool> {
    l.evals += 1;
    let case = json!({"type": T::NAME, "route": "number", "bits": format!("{:#018x}", v.to_bits()), "value": format!("{:?}", v)});
    let key = format!("{}_number_{:#018x}", T::NAME, v.to_bits());
    match quiet(|| T::try_from(v).ok().map(|x| Into::<f64>::into(x))) {
        Err(p) => {
            ctx.violation("error_not_panic", &key, case, json!({"panic": p}));
            None
        }
        Ok(got) => {
            let want = in_range::<T>(v);
            if got.is_some() != want {
                ctx.violation("accept_exactly_in_range", &key, case, json!({"accepted": got.is_some(), "in_range": want, "range": [T::MIN, T::MAX]}));
            } else if let Some(g) = got {
                if g.to_bits() != v.to_bits() {
                    ctx.violation("reads_back_bit_identical", &key, case, json!({"read_back": format!("{:?}", g)}));
                }
            }
            Some(got.is_some())
        }
    }
}

/// text route: `expect` = Some(v) when the text denotes the f64 v, None when it is malformed
fn judge_text<T: Q>(ctx: &Ctx, l: &mut Local, text: &str, expect: Option<f64>) {
    let Some(_) = T::parse("0") else { return };
    l.evals += 1;
    let case = json!({"type": T::NAME, "route": "text", "text": text});
    let key = format!("{}_text_{}", T::NAME, text);
    match quiet(|| T::parse(text).unwrap().ok().map(|x| Into::<f64>::into(x))) {
        Err(p) => {
            ctx.violation("error_not_panic", &key, case, json!({"panic": p}));
        }
        Ok(got) => {
            let want = expect.map(|v| in_range::<T>(v)).unwrap_or(false);
            if got.is_some() != want {
                ctx.violation("text_route_agrees", &key, case, json!({"accepted": got.is_some(), "expected_accept": want, "denoted_value": expect.map(|v| format!("{:?}", v))}));
            } else if let (Some(g), Some(v)) = (got, expect) {
                if g.to_bits() != v.to_bits() {
                    ctx.violation("reads_back_bit_identical", &key, case, json!({"read_back": format!("{:?}", g), "denoted": format!("{:?}", v)}));
                }
            }
        }
    }
}

/// JSON route; the number a JSON text denotes is serde_json's own f64 reading of it
fn judge_json<T: Q>(ctx: &Ctx, l: &mut Local, text: &str) {
    l.evals += 1;
    let case = json!({"type": T::NAME, "route": "json", "text": text});
    let key = format!("{}_json_{}", T::NAME, text);
    let denoted: Option<f64> = serde_json::from_str::<f64>(text).ok();
    match quiet(|| serde_json::from_str::<T>(text).ok().map(|x| Into::<f64>::into(x))) {
        Err(p) => {
            ctx.violation("error_not_panic", &key, case, json!({"panic": p}));
        }
        Ok(got) => {
            let want = denoted.map(|v| in_range::<T>(v)).unwrap_or(false);
            if got.is_some() != want {
                ctx.violation("json_route_agrees", &key, case, json!({"accepted": got.is_some(), "expected_accept": want, "denoted_value": denoted.map(|v| format!("{:?}", v)), "range": [T::MIN, T::MAX]}));
            } else if let (Some(g), Some(v)) = (got, denoted) {
                if g.to_bits() != v.to_bits() {
                    ctx.violation("reads_back_bit_identical", &key, case.clone(), json!({"read_back": format!("{:?}", g)}));
                }
            }
        }
    }
}

pub fn ulp_step(v: f64, n: i64) -> f64 {
    // n ulps away from v (v != 0 finite)
    let b = v.to_bits() as i64;
    let nb = if v > 0.0 { b + n } else { b - n };
    f64::from_bits(nb as u64)
}

pub const MALFORMED: [&str; 22] = ["", " ", "abc", "1_0", "0x10", "1,5", "\u{2212}1", "1e", "--1", "1.2.3", "nan", "NaN", "inf", "-inf", "infinity", "+inf", "1e400", "-1e400", " 1", "1 ", "\t1", "1\n"];

fn all_types(ctx: &Ctx, l: &mut Local, v: f64, with_text: bool) {
    macro_rules! each {
        ($($t:ty),*) => {$(
            let acc = judge_number::<$t>(ctx, l, v);
            if acc.is_some() && ((v - <$t>::MIN).abs() < 1.0 || (v - <$t>::MAX).abs() < 1.0 || !v.is_finite() || v == 0.0) { l.nontrivial += 1; }
            if with_text {
                let dbg = format!("{:?}", v);
                judge_text::<$t>(ctx, l, &dbg, Some(v));
                judge_text::<$t>(ctx, l, &format!("{:e}", v), Some(v));
                if (v.is_sign_positive() && !v.is_nan()) || v.is_nan() { judge_text::<$t>(ctx, l, &format!("+{:?}", v), if v.is_nan() { None } else { Some(v) }); }
                if v.is_finite() {
                    judge_json::<$t>(ctx, l, &serde_json::to_string(&v).unwrap());
                    judge_json::<$t>(ctx, l, &format!("{:e}", v));
                }
            }
        )*};
    }
    each!(Latitude, Longitude, Elevation, Gmt, Pressure, Temperature);
}

/// composite documents: replace every embedded quantity by probe values and demand accept <=> in range
fn judge_composites(ctx: &Ctx, l: &mut Local) {
    fn paths(v: &Value, cur: &mut Vec<String>, out: &mut Vec<Vec<String>>) {
        match v {
            Value::Object(m) => {
                for (k, x) in m {
                    cur.push(k.clone());
                    paths(x, cur, out);
                    cur.pop();
                }
            }
            Value::Number(_) => out.push(cur.clone()),
            _ => {}
        }
    }
    fn set(v: &mut Value, path: &[String], x: Value) {
        let mut cur = v;
        for p in path {
            cur = cur.get_mut(p).unwrap();
        }
        *cur = x;
    }
    fn range_for(name: &str) -> Option<(f64, f64)> {
        match name {
            "latitude" | "NearestLatitudeAllPrayersAlways" | "NearestLatitudeFajrIshaAlways" | "NearestLatitudeFajrIshaInvalid" => Some((-90.0, 90.0)),
            "longitude" => Some((-180.0, 180.0)),
            "elevation" => Some((-420.0, 8848.0)),
            "gmt" => Some((-12.0, 12.0)),
            "pressure" => Some((100.0, 1050.0)),
            "temperature" => Some((-90.0, 57.0)),
            _ => None,
        }
    }
    #[derive(serde::Serialize, serde::Deserialize)]
    struct ParamsConfig {
        params: Params,
        location: Location,
        date_range: Option<DateRange>,
    }
    let site = Site::new(39.0, -77.0, 10.0, -5.0);
    let docs: Vec<(&str, Value, fn(&Value) -> bool)> = vec![
        ("Coordinates", serde_json::to_value(site.loc().coords).unwrap(), |v| serde_json::from_value::<Coordinates>(v.clone()).is_ok()),
        ("Location", serde_json::to_value(site.loc()).unwrap(), |v| serde_json::from_value::<Location>(v.clone()).is_ok()),
        ("Weather", serde_json::to_value(weather(1000.0, 20.0)).unwrap(), |v| serde_json::from_value::<Weather>(v.clone()).is_ok()),
        ("ExtremeLatitudeMethod::NearestLatitudeAllPrayersAlways", serde_json::to_value(ExtremeLatitudeMethod::NearestLatitudeAllPrayersAlways(lat_of(48.5))).unwrap(), |v| serde_json::from_value::<ExtremeLatitudeMethod>(v.clone()).is_ok()),
        ("ExtremeLatitudeMethod::NearestLatitudeFajrIshaAlways", serde_json::to_value(ExtremeLatitudeMethod::NearestLatitudeFajrIshaAlways(lat_of(48.5))).unwrap(), |v| serde_json::from_value::<ExtremeLatitudeMethod>(v.clone()).is_ok()),
        ("ExtremeLatitudeMethod::NearestLatitudeFajrIshaInvalid", serde_json::to_value(ExtremeLatitudeMethod::NearestLatitudeFajrIshaInvalid(lat_of(48.5))).unwrap(), |v| serde_json::from_value::<ExtremeLatitudeMethod>(v.clone()).is_ok()),
        ("Params", serde_json::to_value(params(Method::Mwl, ExtremeLatitudeMethod::NearestLatitudeFajrIshaInvalid(lat_of(48.5)), RoundSeconds::None)).unwrap(), |v| serde_json::from_value::<Params>(v.clone()).is_ok()),
        (
            "ParamsConfig (the CLI's parameter document)",
            serde_json::to_value(ParamsConfig { params: params(Method::Mwl, ExtremeLatitudeMethod::NearestLatitudeAllPrayersAlways(lat_of(48.5)), RoundSeconds::None), location: site.loc(), date_range: Some(DateRange::from(ymd(2024, 1, 1)..=ymd(2024, 1, 2))) }).unwrap(),
            |v| serde_json::from_value::<ParamsConfig>(v.clone()).is_ok(),
        ),
    ];
    for (name, doc, accepts) in docs {
        let mut ps = vec![];
        paths(&doc, &mut vec![], &mut ps);
        for path in ps {
            let Some((lo, hi)) = range_for(path.last().unwrap()) else { continue };
            let mut probes: Vec<Value> = vec![];
            for b in [lo, hi] {
                for n in -2..=2 {
                    probes.push(json!(ulp_step(b, n)));
                }
                probes.push(json!(b as i64));
                probes.push(json!(b as i64 + if b > 0.0 { 1 } else { -1 }));
            }
            probes.extend([json!((lo + hi) / 2.0), json!(1e300), json!(-1e300), json!(-0.0), json!(5e-324), Value::Null, json!("12"), json!(true)]);
            for pr in probes {
                l.evals += 1;
                let mut d = doc.clone();
                set(&mut d, &path, pr.clone());
                let want = pr.as_f64().map(|v| v.is_finite() && v >= lo && v <= hi).unwrap_or(false);
                let got = quiet(|| accepts(&d));
                let case = json!({"document": name, "path": path, "value": pr, "json": d});
                let key = format!("{}_{}_{}", name, path.join("."), pr);
                match got {
                    Err(p) => {
                        ctx.violation("error_not_panic", &key, case, json!({"panic": p}));
                    }
                    Ok(g) => {
                        l.nontrivial += 1;
                        if g != want {
                            ctx.violation("composite_document_accepts_exactly_in_range", &key, case, json!({"accepted": g, "expected_accept": want, "range": [lo, hi]}));
                        }
                    }
                }
            }
        }
    }
}

pub fn explore(ctx: &Ctx) {
    crate::c07::install_quiet_hook();
    ctx.rule("per type every f64 of the bit-pattern alphabet x route (number, text, JSON) is one case; non-trivial = within 1 of a bound, non-finite or zero (the decisions the range predicate can get wrong) plus every composite-document probe");
    ctx.assume("the f64 a text denotes is Rust's f64::from_str reading, the f64 a JSON text denotes is serde_json's own reading (without float_roundtrip it can differ by 1 ulp from the correctly rounded value - a seam of the JSON library, not of the range check)");
    ctx.assume("Pressure and Temperature have no text route");
    ctx.alphabet("bit_patterns", json!({"top16": 65536, "low48": ["0", "1", "all ones"], "count": 196608}));
    ctx.alphabet("near_bounds", json!("each bound of each type -3..+3 ulp"));
    ctx.alphabet("integers", json!("-500..=9000"));
    ctx.alphabet("malformed_texts", json!(MALFORMED));
    let tops: Vec<u64> = (0..65536u64).collect();
    // thorough: four more low-48-bit fillers (alternating and single-bit patterns)
    let lows: Vec<u64> = if false { vec![0u64, 1, (1u64 << 48) - 1] } else { vec![0u64, 1, (1u64 << 48) - 1, 0x5555_5555_5555, 0xAAAA_AAAA_AAAA, 1u64 << 47, (1u64 << 47) - 1] };
    ctx.alphabet("low48_fillers", json!(lows.iter().map(|x| format!("{:#x}", x)).collect::<Vec<_>>()));
    par_jobs(ctx, &tops.chunks(256).map(|c| c.to_vec()).collect::<Vec<_>>(), |chunk, l| {
        for &t in chunk {
            for &low in &lows {
                let v = f64::from_bits((t << 48) | low);
                // text/JSON renderings for a thinned subset (every 16th exponent pattern and everything near the ranges)
                let with_text = t % 16 == 0 || (v.abs() >= 1.0 && v.abs() < 16384.0);
                all_types(ctx, l, v, with_text);
            }
        }
    });
    let mut l = Local::default();
    for b in [-90.0, 90.0, -180.0, 180.0, -420.0, 8848.0, -12.0, 12.0, 100.0, 1050.0, 57.0] {
        for n in -3..=3 {
            all_types(ctx, &mut l, ulp_step(b, n), true);
        }
    }
    for i in -500..=9000 {
        let v = i as f64;
        all_types(ctx, &mut l, v, true);
        macro_rules! ints { ($($t:ty),*) => {$( judge_json::<$t>(ctx, &mut l, &i.to_string()); judge_text::<$t>(ctx, &mut l, &i.to_string(), Some(v)); )*}; }
        ints!(Latitude, Longitude, Elevation, Gmt, Pressure, Temperature);
    }
    for t in MALFORMED {
        macro_rules! mal { ($($t:ty),*) => {$( judge_text::<$t>(ctx, &mut l, t, None); )*}; }
        mal!(Latitude, Longitude, Elevation, Gmt);
    }
    // every text of length <= 5 (thorough: 6) over a 12-character alphabet of the number grammar: what
    // f64::from_str reads it as decides (signs in a row, bare signs/dots/exponents, inf/nan spellings,
    // embedded blanks ... are all in here, so no list of "typical" malformed texts is relied on)
    let chars: Vec<char> = "+-150.e infa".chars().collect();
    let maxlen = if ctx.tier == Tier::Quick { 5 } else { 6 };
    let firsts: Vec<char> = chars.clone();
    ctx.alphabet("grammar_texts", json!({"characters": chars.iter().collect::<String>(), "max_length": maxlen, "count": (1..=maxlen as u32).map(|n| 12u64.pow(n)).sum::<u64>()}));
    par_jobs(ctx, &firsts, |c0, l| {
        let mut stack: Vec<String> = vec![c0.to_string()];
        while let Some(t) = stack.pop() {
            let denotes = t.parse::<f64>().ok();
            macro_rules! g { ($($t:ty),*) => {$( judge_text::<$t>(ctx, l, &t, denotes); )*}; }
            g!(Latitude, Longitude, Elevation, Gmt);
            if denotes.is_none() {
                l.nontrivial += 1;
            }
            if t.chars().count() < maxlen {
                for c in &chars {
                    let mut n = t.clone();
                    n.push(*c);
                    stack.push(n);
                }
            }
        }
    });
    // long and non-ASCII garbage: a multi-byte character at every byte offset 0..40 of a digit string,
    // plus a few real-world spellings (Arabic-Indic digits, degree sign, full-width digits)
    let mut garbage: Vec<String> = vec!["-\u{667}\u{667}\u{66b}\u{662}\u{660}\u{668}\u{665}\u{669}\u{661}\u{664}\u{660}\u{660}".into(), "39.018165100000\u{b0}N".into(), "\u{ff11}\u{ff12}.\u{ff15}".into(), "1".repeat(400), format!("{}x", "9".repeat(64))];
    for n in 0..40 {
        for ch in ["\u{e9}", "\u{b0}", "\u{2212}", "\u{1f30d}"] {
            garbage.push(format!("{}{}{}", "1".repeat(n), ch, "1".repeat(20)));
        }
    }
    ctx.alphabet("long_non_ascii_texts", json!(garbage.len()));
    for t in &garbage {
        let denotes = if t.chars().all(|c| c.is_ascii_digit()) { t.parse::<f64>().ok() } else { None };
        macro_rules! mal2 { ($($t:ty),*) => {$( judge_text::<$t>(ctx, &mut l, t, denotes); )*}; }
        mal2!(Latitude, Longitude, Elevation, Gmt);
    }
    for t in ["null", "\"12\"", "true", "[1]", "{}", "NaN", "Infinity", "1e400", "-1e400", "12abc", "", "1e", "01"] {
        macro_rules! malj { ($($t:ty),*) => {$( judge_json::<$t>(ctx, &mut l, t); )*}; }
        malj!(Latitude, Longitude, Elevation, Gmt, Pressure, Temperature);
    }
    judge_composites(ctx, &mut l);
    ctx.merge(l);
    ctx.sample(json!({"type": "Latitude", "route": "number", "value": "90.00000000000001", "accepted": Latitude::try_from(ulp_step(90.0, 1)).is_ok()}));
    ctx.sample(json!({"type": "Pressure", "route": "json", "text": "99999", "accepted": serde_json::from_str::<Pressure>("99999").is_ok()}));
    ctx.sample(json!({"type": "Gmt", "route": "text", "text": "NaN", "accepted": "NaN".parse::<Gmt>().is_ok()}));
    let _ = std::panic::take_hook();
}

pub fn replay(ctx: &Ctx, _clause: &str, case: &Value) {
    crate::c07::install_quiet_hook();
    let mut l = Local::default();
    if case.get("document").is_some() {
        judge_composites(ctx, &mut l);
        return;
    }
    let ty = case["type"].as_str().unwrap();
    let route = case["route"].as_str().unwrap();
    macro_rules! disp {
        ($($t:ty),*) => {$(
            if ty == <$t>::NAME {
                match route {
                    "number" => { let bits = u64::from_str_radix(case["bits"].as_str().unwrap().trim_start_matches("0x"), 16).unwrap(); judge_number::<$t>(ctx, &mut l, f64::from_bits(bits)); }
                    "text" => { let t = case["text"].as_str().unwrap(); judge_text::<$t>(ctx, &mut l, t, if MALFORMED.contains(&t) { None } else { t.parse::<f64>().ok() }); }
                    _ => judge_json::<$t>(ctx, &mut l, case["text"].as_str().unwrap()),
                }
            }
        )*};
    }
    disp!(Latitude, Longitude, Elevation, Gmt, Pressure, Temperature);
}
