//! History explorer: every sequence of API calls up to a small depth over a small alphabet of calls,
//! each sequence on a fresh OS thread, every result compared with the *same call made alone in a
//! fresh process*. The library's results are functions of (parameters, location, date, weather); a
//! result that depends on what was computed before (a cache keyed too coarsely, a scratch value
//! that is not reset, state carried from one date of a range to the next) makes every property
//! that quantifies over inputs fail for some call sequence, while each single fresh call still
//! looks right - and it can make a same-thread differential oracle agree with the bug. This is the
//! "start from non-initial states" part of the exploration: the reference is the initial state.

use crate::common::*;
use chrono::NaiveDate;
use islamic_prayer_times::*;
use serde::{Deserialize, Serialize};
use serde_json::{json, Value};
use std::collections::{BTreeMap, HashMap};
use std::sync::Mutex;

#[derive(Clone, Debug, Serialize, Deserialize)]
pub enum Op {
    /// prayer_times_dt
    Dt(PtCase),
    /// prayer_times_dt_rng over `days` dates starting at the case's date
    Rng(PtCase, i64),
    /// prayer_times_dt_rng_block (threshold 0: parallel branch on a multi-core host)
    Block(PtCase, i64),
}
impl Op {
    pub fn cases(&self) -> Vec<PtCase> {
        match self {
            Op::Dt(c) => vec![c.clone()],
            Op::Rng(c, n) | Op::Block(c, n) => {
                let mut v = vec![];
                let mut d = c.date;
                for _ in 0..*n {
                    let mut x = c.clone();
                    x.date = d;
                    v.push(x);
                    d = d.succ_opt().unwrap();
                }
                v
            }
        }
    }
    /// run the operation; the result as a list of per-date results
    pub fn run(&self) -> Vec<(NaiveDate, R)> {
        match self {
            Op::Dt(c) => vec![(c.date, c.run())],
            Op::Rng(c, n) => {
                let dr = DateRange::from(c.date..=(c.date + chrono::Duration::days(n - 1)));
                prayer_times_dt_rng(&c.params, c.site.loc(), &dr).into_iter().collect()
            }
            Op::Block(c, n) => {
                let dr = DateRange::from(c.date..=(c.date + chrono::Duration::days(n - 1)));
                prayer_times_dt_rng_block(&c.params, c.site.loc(), &dr, 0).into_iter().collect()
            }
        }
    }
    pub fn describe(&self) -> Value {
        match self {
            Op::Dt(c) => json!({"dt": {"site": c.site, "date": date_json(c.date), "params": params_key(&c.params), "weather": c.weather}}),
            Op::Rng(c, n) => json!({"rng": {"site": c.site, "start": date_json(c.date), "days": n, "params": params_key(&c.params)}}),
            Op::Block(c, n) => json!({"rng_block": {"site": c.site, "start": date_json(c.date), "days": n, "params": params_key(&c.params)}}),
        }
    }
}

/// one call alone in a fresh process
pub fn fresh(c: &PtCase) -> Option<R> {
    let exe = std::env::current_exe().ok()?;
    let out = std::process::Command::new(exe).args(["single", &c.to_value().to_string()]).output().ok()?;
    let text = String::from_utf8_lossy(&out.stdout).to_string();
    let line = text.lines().find_map(|l| l.strip_prefix("RESULT "))?;
    serde_json::from_str::<R>(line).ok()
}

/// base call plus one variant per mutator
pub fn vary(base: &PtCase, muts: &[&dyn Fn(&mut PtCase)]) -> Vec<PtCase> {
    let mut v = vec![base.clone()];
    for m in muts {
        let mut c = base.clone();
        m(&mut c);
        v.push(c);
    }
    v
}

/// Explore all sequences of length <= `depth` (2 or 3) over `alphabet`.
pub fn explore(ctx: &Ctx, name: &str, alphabet: &[Op], depth: usize) {
    // canonical per-date results, each from its own fresh process
    let mut keys: BTreeMap<String, PtCase> = BTreeMap::new();
    for op in alphabet {
        for c in op.cases() {
            keys.insert(serde_json::to_string(&c).unwrap(), c);
        }
    }
    let list: Vec<(String, PtCase)> = keys.into_iter().collect();
    let canon: Mutex<HashMap<String, R>> = Mutex::new(HashMap::new());
    par_jobs(ctx, &list, |(k, c), _l| match fresh(c) {
        Some(r) => {
            canon.lock().unwrap().insert(k.clone(), r);
        }
        None => {
            eprintln!("MACHINERY: no result from a fresh child process for {}", k);
            std::process::exit(3);
        }
    });
    let canon = canon.into_inner().unwrap();
    let n = alphabet.len();
    let mut seqs: Vec<Vec<usize>> = vec![];
    for a in 0..n {
        for b in 0..n {
            seqs.push(vec![a, b]);
            if depth >= 3 {
                for c in 0..n {
                    seqs.push(vec![a, b, c]);
                }
            }
        }
    }
    ctx.alphabet(&format!("history_{}", name), json!({"operations": n, "sequences": seqs.len(), "depth": depth, "fresh_process_reference_calls": list.len(), "ops": alphabet.iter().map(|o| o.describe()).collect::<Vec<_>>()}));
    par_jobs(ctx, &seqs, |seq, l| {
        let ops: Vec<Op> = seq.iter().map(|i| alphabet[*i].clone()).collect();
        let ops2 = ops.clone();
        // fresh OS thread: thread-local state starts empty
        let got: Vec<Option<Vec<(NaiveDate, R)>>> = std::thread::spawn(move || ops2.iter().map(|o| std::panic::catch_unwind(|| o.run()).ok()).collect()).join().unwrap();
        l.evals += seq.len() as u64;
        l.nontrivial += 1;
        l.count("history_sequences", 1);
        for (pos, (op, g)) in ops.iter().zip(got.iter()).enumerate() {
            let want: Vec<(NaiveDate, R)> = op.cases().iter().map(|c| (c.date, canon[&serde_json::to_string(c).unwrap()].clone())).collect();
            let ok = g.as_ref().map(|g| *g == want).unwrap_or(false);
            if !ok {
                let diff = g.as_ref().and_then(|g| {
                    if g.len() != want.len() {
                        return Some(json!({"dates_returned": g.len(), "dates_expected": want.len()}));
                    }
                    g.iter().zip(want.iter()).find(|(a, b)| a != b).map(|(a, b)| json!({"date": date_json(a.0), "in_sequence": fmt_r(&a.1), "alone_in_fresh_process": fmt_r(&b.1)}))
                });
                ctx.violation(
                    "result_depends_on_previous_calls",
                    &format!("{}_{:?}_{}", name, seq, pos),
                    json!({"history": serde_json::to_value(&ops).unwrap(), "position": pos}),
                    json!({"sequence": ops.iter().map(|o| o.describe()).collect::<Vec<_>>(), "position_of_the_differing_call": pos, "panicked": g.is_none(), "first_difference": diff}),
                );
                break;
            }
        }
    });
}

pub fn replay(ctx: &Ctx, case: &Value) {
    let ops: Vec<Op> = serde_json::from_value(case["history"].clone()).expect("history");
    let ops2 = ops.clone();
    let got: Vec<Option<Vec<(NaiveDate, R)>>> = std::thread::spawn(move || ops2.iter().map(|o| std::panic::catch_unwind(|| o.run()).ok()).collect()).join().unwrap();
    for (pos, (op, g)) in ops.iter().zip(got.iter()).enumerate() {
        let want: Vec<(NaiveDate, R)> = op.cases().iter().map(|c| (c.date, fresh(c).expect("fresh process"))).collect();
        let ok = g.as_ref().map(|g| *g == want).unwrap_or(false);
        println!("  call {} {}: {}", pos, op.describe(), if ok { "equals the fresh-process result" } else { "DIFFERS from the fresh-process result" });
        if !ok {
            ctx.violation("result_depends_on_previous_calls", &pos.to_string(), case.clone(), json!({"position": pos}));
        }
    }
}

// ------------------------------------------------------------------------------------------------
// alphabets per theme (each: a base call and single-dimension variants, incl. range operations)

fn base_high() -> PtCase {
    // fallback engaged: no 18-degree twilight at 58.3 N in June
    PtCase::new(&Params::new(Method::Mwl), Site::new(58.3, -134.4, 10.0, -9.0), ymd(2024, 6, 20))
}
fn base_mid() -> PtCase {
    PtCase::new(&Params::new(Method::Mwl), Site::new(39.0, -77.0, 0.0, -5.0), ymd(2024, 3, 19))
}

/// place / zone / date dimension (C01, C13, C20)
pub fn alphabet_place_time() -> Vec<Op> {
    let b = base_mid();
    let mut v: Vec<Op> = vary(
        &b,
        &[
            &|c| c.site.gmt = -4.0,
            &|c| c.site.gmt = -4.75,
            &|c| c.site.gmt = -5.25,
            &|c| c.site.lon = -62.0,
            &|c| c.site.lat = -39.0,
            &|c| c.site.lat = 30.0,
            &|c| c.site.elev = 3000.0,
            &|c| c.date = ymd(2024, 3, 20),
            &|c| c.date = ymd(2024, 3, 18),
            &|c| c.date = ymd(2023, 3, 19),
            &|c| {
                c.date = ymd(2024, 3, 20);
                c.site.gmt = -4.0
            },
            &|c| {
                c.site.lon = -62.0;
                c.site.gmt = -4.0
            },
        ],
    )
    .into_iter()
    .map(Op::Dt)
    .collect();
    v.push(Op::Rng(b.clone(), 3));
    let mut g = b.clone();
    g.site.gmt = -4.0;
    v.push(Op::Rng(g, 3));
    v
}

/// policy / method dimension at a place where the fallback engages (C05, C08, C09, C10)
pub fn alphabet_policy() -> Vec<Op> {
    use ExtremeLatitudeMethod::*;
    let b = base_high();
    let mut v: Vec<Op> = vary(
        &b,
        &[
            &|c| c.params.extreme_latitude_method = None,
            &|c| c.params.extreme_latitude_method = NearestGoodDayAllPrayersAlways,
            &|c| c.params.extreme_latitude_method = NearestLatitudeAllPrayersAlways(lat_of(48.5)),
            &|c| c.params.extreme_latitude_method = NearestLatitudeFajrIshaInvalid(lat_of(48.5)),
            &|c| c.params.extreme_latitude_method = SeventhOfNightFajrIshaAlways,
            &|c| c.params.extreme_latitude_method = SeventhOfNightFajrIshaInvalid,
            &|c| c.params.extreme_latitude_method = AngleBased,
            &|c| c.params.extreme_latitude_method = MinutesFromMaghribFajrIshaAlways,
            &|c| c.params = Params::new(Method::Egyptian),
            &|c| c.params = Params::new(Method::Isna),
            &|c| c.params = Params::new(Method::UmmAlQurra),
            &|c| c.params.asr_shadow_ratio = AsrShadowRatio::Hanafi,
            &|c| c.params.round_seconds = RoundSeconds::None,
            &|c| c.site.lat = 62.0,
            &|c| c.site.lat = 45.0,
            &|c| c.date = ymd(2024, 6, 21),
            &|c| c.date = ymd(2024, 8, 25),
        ],
    )
    .into_iter()
    .map(Op::Dt)
    .collect();
    // ranges that leave the no-twilight season (state carried from date to date inside the range API)
    let mut r = b.clone();
    r.date = ymd(2024, 8, 8);
    v.push(Op::Rng(r.clone(), 12));
    let mut r2 = r.clone();
    r2.params = Params::new(Method::Isna);
    v.push(Op::Rng(r2, 12));
    v.push(Op::Block(r, 12));
    v
}

/// numeric parameter fields and weather (C02, C11, C12)
pub fn alphabet_params() -> Vec<Op> {
    use Prayer::*;
    let mut b = base_high();
    b.site = Site::new(52.5, 13.4, 34.0, 1.0);
    b.date = ymd(2024, 6, 10);
    vary(
        &b,
        &[
            &|c| {
                c.params.angles.insert(Fajr, 15.0);
            },
            &|c| {
                c.params.angles.insert(Isha, 12.0);
            },
            &|c| {
                c.params.angles.insert(Imsaak, 3.0);
            },
            &|c| {
                c.params.intervals.insert(Isha, 75.0);
            },
            &|c| {
                c.params.intervals.insert(Fajr, 80.0);
            },
            &|c| {
                c.params.intervals.insert(Imsaak, 12.5);
            },
            &|c| {
                c.params.minutes.insert(Dhuhr, 7.0);
            },
            &|c| {
                c.params.minutes.insert(Fajr, -33.0);
            },
            &|c| c.weather = Some((900.0, -20.0)),
            &|c| c.weather = Some((1010.0, 14.0)),
            &|c| c.params.round_seconds = RoundSeconds::None,
            &|c| c.params.round_seconds = RoundSeconds::AggressiveRounding,
            &|c| c.params.asr_shadow_ratio = AsrShadowRatio::Hanafi,
            &|c| c.params.extreme_latitude_method = ExtremeLatitudeMethod::None,
            &|c| c.params = Params::new(Method::UmmAlQurra),
        ],
    )
    .into_iter()
    .map(Op::Dt)
    .collect()
}

/// long ranges through the range API: leaving a no-twilight season and entering the next one
/// (state carried from date to date inside the range loop: search hints, scratch parameters)
pub fn alphabet_long_ranges() -> Vec<Op> {
    let juneau = Site::new(58.3019444, -134.4197222, 0.0, -9.0);
    let isna = PtCase::new(&Params::new(Method::Isna), juneau, ymd(2022, 5, 25));
    let mut mwl_s = PtCase::new(&Params::new(Method::Mwl), Site::new(-54.93, -67.61, 0.0, -3.0), ymd(2023, 1, 20));
    mwl_s.params.intervals.insert(Prayer::Imsaak, 10.0);
    let mut single = isna.clone();
    single.date = ymd(2023, 5, 20);
    let mut all = isna.clone();
    all.params.extreme_latitude_method = ExtremeLatitudeMethod::NearestGoodDayAllPrayersAlways;
    all.date = ymd(2022, 7, 1);
    vec![Op::Rng(isna, 400), Op::Rng(mwl_s, 330), Op::Rng(all, 62), Op::Dt(single)]
}

/// thorough tier: every policy (nearest latitude with two substitutes) x every method at the high-latitude base
pub fn alphabet_policy_full() -> Vec<Op> {
    let b = base_high();
    let mut v = vec![Op::Dt(b.clone())];
    let mut pols = policies14(48.5);
    pols.push(ExtremeLatitudeMethod::None);
    pols.push(ExtremeLatitudeMethod::NearestLatitudeFajrIshaAlways(lat_of(-30.0)));
    for p in pols {
        let mut c = b.clone();
        c.params.extreme_latitude_method = p;
        v.push(Op::Dt(c));
    }
    for m in METHODS9 {
        let mut c = b.clone();
        c.params = Params::new(m);
        v.push(Op::Dt(c));
    }
    for r in [RoundSeconds::None, RoundSeconds::NormalRounding, RoundSeconds::AggressiveRounding] {
        let mut c = b.clone();
        c.params.round_seconds = r;
        v.push(Op::Dt(c));
    }
    v
}
