//! C14 Range results are the per-day results for exactly the days in the range.
use crate::common::*;
use chrono::{Duration, NaiveDate};
use islamic_prayer_times::*;
use serde_json::{json, Value};

pub fn range_of(start: NaiveDate, span: i64) -> DateRange {
    DateRange::from(start..=(start + Duration::days(span - 1)))
}

/// num_days and partition(k) for k in 0..=kmax against the set-of-days model
pub fn judge_partition(ctx: &Ctx, l: &mut Local, start: NaiveDate, span: i64, kmax: usize) -> bool {
    let dr = range_of(start, span);
    let end = *dr.end_date();
    let want_days = span.max(0) as usize;
    let case = |k: Option<usize>| json!({"start": date_json(start), "span_days": span, "end": date_json(end), "k": k});
    let key = |k: Option<usize>| format!("{}_{}_{:?}", start, span, k);
    let nd = std::panic::catch_unwind(|| dr.num_days());
    l.evals += 1;
    let nd_ok = matches!(nd, Ok(n) if n == want_days);
    if !nd_ok {
        ctx.violation("num_days", &key(None), case(None), json!({"num_days": nd.ok().map(|n| n.to_string()), "expected": want_days}));
    }
    for k in 0..=kmax {
        l.evals += 1;
        let dr2 = dr.clone();
        let parts = match std::panic::catch_unwind(move || dr2.partition(k)) {
            Ok(p) => p,
            Err(_) => {
                ctx.violation("partition_panics", &key(Some(k)), case(Some(k)), json!({"panic": crate::c07::take_panic_msg()}));
                continue;
            }
        };
        let mut bad: Option<String> = None;
        if k < 2 && want_days == 0 {
            // the degenerate "range itself" is returned; it has no days - accepted, not counted as a part
            if parts.len() > 1 {
                bad = Some("more than one part for k < 2".into());
            }
        } else {
            if parts.len() > k.max(1) {
                bad = Some(format!("{} parts for k = {}", parts.len(), k));
            }
            let mut next = start;
            for (i, p) in parts.iter().enumerate() {
                if p.start_date() > p.end_date() {
                    bad = Some(format!("part {} is empty/reversed: {}", i, p));
                    break;
                }
                if *p.start_date() != next {
                    bad = Some(format!("part {} starts at {} instead of {}", i, p.start_date(), next));
                    break;
                }
                next = *p.end_date() + Duration::days(1);
            }
            if bad.is_none() {
                let covered_to = next - Duration::days(1);
                if want_days == 0 {
                    if !parts.is_empty() {
                        bad = Some("parts for an empty range".into());
                    }
                } else if parts.is_empty() || covered_to != end {
                    bad = Some(format!("union ends at {} instead of {}", covered_to, end));
                }
            }
        }
        if let Some(b) = bad {
            ctx.violation("partition_exact_cover", &key(Some(k)), case(Some(k)), json!({"what": b, "parts": parts.iter().map(|p| p.to_string()).collect::<Vec<_>>()}));
        }
        if k >= 2 && want_days > 0 {
            l.nontrivial += 1;
        }
    }
    nd_ok
}

pub fn judge_range_api(ctx: &Ctx, l: &mut Local, p: &Params, site: Site, start: NaiveDate, span: i64) {
    let dr = range_of(start, span);
    let case = PtCase::new(p, site, start).with_extra(json!({"span_days": span}));
    // a wrong day count on a reversed range makes the API iterate ~forever: only call it when sane
    if dr.num_days() > 10_000 {
        return;
    }
    let m = lib(|| json!({"range_api": case.to_value()}), || prayer_times_dt_rng(p, site.loc(), &dr));
    l.evals += 1;
    let mut want = vec![];
    let mut d = start;
    for _ in 0..span.max(0) {
        want.push(d);
        d = d.succ_opt().unwrap();
    }
    let got: Vec<NaiveDate> = m.keys().cloned().collect();
    if got != want {
        ctx.violation("range_keys_are_exactly_the_dates", &case.key(), case.to_value(), json!({"expected_count": want.len(), "got_count": got.len(), "first_got": got.first().map(|d| d.to_string()), "last_got": got.last().map(|d| d.to_string())}));
        return;
    }
    for d in want {
        l.evals += 1;
        if m[&d] != pt(p, site.loc(), d, None) {
            ctx.violation("range_value_equals_single_date_call", &format!("{}_{}", d, case.key()), case.to_value(), json!({"date": date_json(d), "range_value": fmt_r(&m[&d])}));
            return;
        }
    }
    l.nontrivial += 1;
    // the block form of the range API (this host's worker count; the schedule space is C15's subject):
    // the same map for thresholds that force and that avoid the parallel branch
    if (0..=400).contains(&span) && site.lat == 39.0 {
        // thresholds: forced parallel, small ones (a last block shorter than the threshold exists), the CLI's
        for thr in [0usize, 2, 7, 16, 365] {
            let (p2, loc, dr2) = (p.clone(), site.loc(), dr.clone());
            let (tx, rx) = std::sync::mpsc::channel();
            std::thread::spawn(move || {
                let r = std::panic::catch_unwind(std::panic::AssertUnwindSafe(|| prayer_times_dt_rng_block(&p2, loc, &dr2, thr)));
                let _ = tx.send(r.ok());
            });
            l.evals += 1;
            let got = rx.recv_timeout(std::time::Duration::from_secs(60));
            let what = match got {
                Ok(Some(b)) if b == m => None,
                Ok(Some(b)) => Some(format!("{} dates instead of {} (or different values)", b.len(), m.len())),
                Ok(None) => Some("panic".to_string()),
                Err(_) => Some("no result after 60 s".to_string()),
            };
            if let Some(w) = what {
                ctx.violation("range_block_api_equals_range_api", &format!("thr{}_{}", thr, case.key()), case.to_value(), json!({"threshold": thr, "what": w, "host_parallelism": std::thread::available_parallelism().map(|n| n.get()).unwrap_or(1)}));
            }
        }
    }
    // short ranges additionally against per-day calls made alone in fresh processes: an entry must not
    // depend on its position in the range (state carried from one date to the next inside the range API
    // could also poison the in-process per-day reference above)
    if (1..=12).contains(&span) && site.lat == 39.0 && p.round_seconds == RoundSeconds::None {
        for (d, v) in &m {
            let c = PtCase::new(p, site, *d);
            match crate::history::fresh(&c) {
                Some(r) => {
                    l.count("range_entries_compared_with_fresh_process_calls", 1);
                    if r != *v {
                        ctx.violation("range_value_equals_single_date_call_in_a_fresh_process", &format!("{}_{}", d, case.key()), case.to_value(), json!({"date": date_json(*d), "range_value": fmt_r(v), "alone": fmt_r(&r)}));
                    }
                }
                None => {
                    eprintln!("MACHINERY: no canonical result from the child process");
                    std::process::exit(3);
                }
            }
        }
    }
}

pub fn explore(ctx: &Ctx) {
    // call sequences from non-initial states (see history.rs)
    crate::history::explore(ctx, "long_ranges", &crate::history::alphabet_long_ranges(), 2);
    crate::history::explore(ctx, "policy", &crate::history::alphabet_policy(), 2);
    let quick = ctx.tier == Tier::Quick;
    crate::c07::install_quiet_hook();
    ctx.rule("every (start, span, k) triple is one partition case and every (start, span, site, params) one range-API case; non-trivial = k >= 2 on a non-empty range (a real split) resp. a range-API result compared key-by-key and value-by-value with the single-date API");
    ctx.assume("k < 2 on an empty range returns the range itself (no days) - accepted");
    ctx.assume("the range API is only invoked when num_days() <= 10000 (a wrong count on a reversed range would iterate practically forever; the num_days clause reports it)");
    // incl. a start shortly before the 1582 Julian->Gregorian switch of the Julian Day and the first year of the calendar
    let starts = [ymd(2023, 1, 1), ymd(2023, 12, 25), ymd(2024, 2, 20), ymd(1999, 12, 31), ymd(2100, 2, 27), ymd(1600, 1, 1), ymd(1582, 9, 20), ymd(1, 1, 1)];
    let (smin, smax) = (-400i64, 2000i64);
    let kmax = 64;
    ctx.alphabet("starts", json!(starts.iter().map(|d| d.to_string()).collect::<Vec<_>>()));
    ctx.alphabet("spans_days", json!({"from": smin, "to": smax, "meaning": "end = start + span - 1 (span <= 0: end before start)"}));
    ctx.alphabet("k", json!({"from": 0, "to": kmax}));
    let mut jobs = vec![];
    for &s in &starts {
        let mut a = smin;
        while a <= smax {
            jobs.push((s, a, (a + 99).min(smax)));
            a += 100;
        }
    }
    par_jobs(ctx, &jobs, |(s, a, z), l| {
        for span in *a..=*z {
            judge_partition(ctx, l, *s, span, kmax);
        }
    });
    // range API vs per-day API
    let mut spans: Vec<i64> = (-3..=if quick { 120 } else { 400 }).collect();
    spans.extend([-400, -30, 59, 60, 365, 366, 367, 730, 1000, 2000]);
    let sites = [Site::new(39.0, -77.0, 0.0, -5.0), Site::new(-33.9, 151.2, 0.0, 10.0), Site::new(58.3, -134.4, 0.0, -9.0)];
    let psets = [Params::new(Method::Isna), params(Method::UmmAlQurra, ExtremeLatitudeMethod::SeventhOfNightFajrIshaInvalid, RoundSeconds::None)];
    ctx.alphabet("range_api", json!({"spans": spans.len(), "sites": sites, "param_sets": ["Isna defaults", "UmmAlQurra + SeventhOfNightFajrIshaInvalid, unrounded"], "starts": starts.len()}));
    let mut jobs2 = vec![];
    for &s in &starts {
        for &sp in &spans {
            for site in sites {
                for (pi, _) in psets.iter().enumerate() {
                    jobs2.push((s, sp, site, pi));
                }
            }
        }
    }
    jobs2.sort_by_key(|j| -j.1);
    par_jobs(ctx, &jobs2, |(s, sp, site, pi), l| {
        judge_range_api(ctx, l, &psets[*pi], *site, *s, *sp);
    });
    ctx.sample(json!({"start": "2024-02-20", "span_days": 10, "k": 6, "parts": range_of(ymd(2024, 2, 20), 10).partition(6).iter().map(|p| p.to_string()).collect::<Vec<_>>()}));
    ctx.sample(json!({"start": "2023-01-01", "span_days": -5, "num_days": range_of(ymd(2023, 1, 1), -5).num_days()}));
    let _ = std::panic::take_hook();
}

pub fn replay(ctx: &Ctx, clause: &str, case: &Value) {
    crate::c07::install_quiet_hook();
    let mut l = Local::default();
    if clause.starts_with("range_") {
        let c: PtCase = serde_json::from_value::<PtCase>(case.clone()).map(PtCase::fix).expect("case");
        judge_range_api(ctx, &mut l, &c.params, c.site, c.date, c.extra["span_days"].as_i64().unwrap());
    } else {
        let start = NaiveDate::parse_from_str(case["start"].as_str().unwrap(), "%Y-%m-%d").unwrap();
        judge_partition(ctx, &mut l, start, case["span_days"].as_i64().unwrap(), 64);
    }
}
