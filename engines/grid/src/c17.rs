//! C17 Hijri conversion is the tabular Islamic calendar, day for day (complete input space).
use crate::common::*;
use crate::refm;
use chrono::{Datelike, NaiveDate};
use islamic_prayer_times::*;
use serde_json::{json, Value};

pub const EPOCH: i64 = 227015;

fn fdiv(a: i64, b: i64) -> i64 {
    a.div_euclid(b)
}
pub fn fixed_from_islamic(y: i64, m: i64, d: i64) -> i64 {
    EPOCH - 1 + (y - 1) * 354 + fdiv(3 + 11 * y, 30) + 29 * (m - 1) + fdiv(m, 2) + d
}
/// (year, month, day) of the arithmetic Islamic calendar for fixed day number `rd` (Calendrical Calculations)
pub fn islamic_from_fixed(rd: i64) -> (i64, i64, i64) {
    let y = fdiv(30 * (rd - EPOCH) + 10646, 10631);
    let prior = rd - fixed_from_islamic(y, 1, 1);
    let m = fdiv(11 * prior + 330, 325);
    let d = rd - fixed_from_islamic(y, m, 1) + 1;
    (y, m, d)
}
pub fn leap(y: i64) -> bool {
    (11 * y + 14).rem_euclid(30) < 11
}
pub fn month_len(y: i64, m: i64) -> i64 {
    if m % 2 == 1 || (m == 12 && leap(y)) {
        30
    } else {
        29
    }
}
pub fn rd_of(date: NaiveDate) -> i64 {
    refm::jdn(date.year(), date.month(), date.day()) - 1721425
}

#[derive(Clone, Copy, PartialEq, Debug)]
pub struct H {
    y: i64, // astronomical Hijri year (<= 0 before the epoch)
    m: i64,
    d: i64,
}

/// observe the library for one date; None = panic
pub fn observe(date: NaiveDate) -> Result<(H, u8, String), String> {
    std::panic::catch_unwind(|| {
        let h = HijriDate::from(date);
        let y = if h.pre_epoch() { 1 - h.year() as i64 } else { h.year() as i64 };
        let m = h.month() as u8 as i64;
        let wd = h.day_of_week() as u8;
        let text = h.to_string();
        let _ = h.date();
        (H { y, m, d: h.day() as i64 }, wd, text)
    })
    .map_err(|_| crate::c07::take_panic_msg())
}

pub fn judge(ctx: &Ctx, l: &mut Local, date: NaiveDate, prev: &mut Option<H>) {
    l.evals += 1;
    let case = json!({"date": date_json(date)});
    let key = date.to_string();
    let rd = rd_of(date);
    let (y, m, d) = islamic_from_fixed(rd);
    match observe(date) {
        Err(msg) => {
            ctx.violation("no_panic", &key, case, json!({"panic": msg, "expected": {"year": y, "month": m, "day": d}}));
            *prev = None;
        }
        Ok((h, wd, text)) => {
            if (h.y, h.m, h.d) != (y, m, d) {
                ctx.violation("equals_tabular_calendar", &key, case.clone(), json!({"library": {"year": h.y, "month": h.m, "day": h.d, "text": text}, "tabular": {"year": y, "month": m, "day": d}}));
            }
            // B.H. flag and year mapping are folded into h.y; check the printed era too
            // printing: layout is free, but the text must carry the day and the (displayed) year
            let shown_year = if y <= 0 { 1 - y } else { y };
            if text.trim().is_empty() || !text.contains(&d.to_string()) || !text.contains(&shown_year.to_string()) {
                ctx.violation("printed_text", &key, case.clone(), json!({"text": text, "must_contain_day": d, "must_contain_year": shown_year}));
            }
            let want_wd = ((refm::jdn(date.year(), date.month(), date.day()) + 1).rem_euclid(7) + 1) as u8; // 1 = Sunday (Ahad)
            if wd != want_wd {
                ctx.violation("weekday_equals_civil_weekday", &key, case.clone(), json!({"library_weekday_1_is_sunday": wd, "civil": want_wd}));
            }
            if let Some(p) = *prev {
                let succ = (h.y, h.m, h.d) == (p.y, p.m, p.d + 1) || (p.d == month_len(p.y, p.m) && ((h.y, h.m, h.d) == (p.y, p.m + 1, 1) || (p.m == 12 && (h.y, h.m, h.d) == (p.y + 1, 1, 1))));
                if !succ {
                    ctx.violation("successive_dates_map_to_successive_hijri_days", &key, case.clone(), json!({"previous": {"year": p.y, "month": p.m, "day": p.d}, "this": {"year": h.y, "month": h.m, "day": h.d}}));
                }
            }
            if h.d == 1 {
                l.nontrivial += 1; // month starts: the month-length / leap / year boundary decisions
                if h.m == 1 {
                    l.count("hijri_year_starts", 1);
                }
            }
            if ctx.want_sample() && (date == ymd(622, 7, 19) || date == ymd(1, 1, 1) || date == ymd(2024, 7, 7) || date == ymd(9999, 12, 31)) {
                ctx.sample(json!({"date": date_json(date), "hijri": text}));
            }
            *prev = Some(h);
        }
    }
}

pub fn explore(ctx: &Ctx) {
    crate::c07::install_quiet_hook();
    ctx.rule("every date 0001-01-01..9999-12-31 is one case (complete input space, both tiers); non-trivial = dates on which a Hijri month starts (the month-length, leap-year and year-boundary decisions), counted from the library's own output after it matched the reference");
    ctx.assume("reference: Calendrical Calculations arithmetic Islamic calendar, epoch RD 227015, floor division; Gregorian day number from integer JDN (independent of chrono and of the library)");
    // self-test of the reference
    assert_eq!(islamic_from_fixed(EPOCH), (1, 1, 1));
    assert_eq!(rd_of(ymd(622, 7, 19)), EPOCH);
    // Calendrical Calculations sample data (appendix C): R.D. -> arithmetic Islamic date
    assert_eq!(islamic_from_fixed(728714), (1416, 10, 5));
    assert_eq!(islamic_from_fixed(601716), (1058, 5, 18));
    assert_eq!(islamic_from_fixed(764652), (1518, 3, 5));
    assert_eq!(islamic_from_fixed(-214193), (-1245, 12, 9));
    assert_eq!(rd_of(ymd(1996, 2, 25)), 728714);
    assert_eq!(rd_of(ymd(1, 1, 1)), 1);
    let chunks: Vec<(i32, i32)> = (0..100).map(|i| (i * 100 + if i == 0 { 1 } else { 0 }, i * 100 + 99)).collect();
    ctx.alphabet("dates", json!({"range": "0001-01-01..9999-12-31", "count": 3652059}));
    par_jobs(ctx, &chunks, |(y0, y1), l| {
        let mut d = ymd(*y0, 1, 1);
        let end = ymd(*y1, 12, 31);
        // seed the successor check with the day before the chunk
        let mut prev: Option<H> = d.pred_opt().filter(|p| p.year() >= 1).and_then(|p| observe(p).ok()).map(|x| x.0);
        while d <= end {
            judge(ctx, l, d, &mut prev);
            if d == end {
                break;
            }
            d = d.succ_opt().unwrap();
        }
    });
    let _ = std::panic::take_hook();
}

pub fn replay(ctx: &Ctx, _clause: &str, case: &Value) {
    crate::c07::install_quiet_hook();
    let mut l = Local::default();
    let date = NaiveDate::parse_from_str(case["date"].as_str().unwrap(), "%Y-%m-%d").unwrap();
    let mut prev = date.pred_opt().filter(|p| p.year() >= 1).and_then(|p| observe(p).ok()).map(|x| x.0);
    judge(ctx, &mut l, date, &mut prev);
    println!("  library: {:?}", observe(date));
}
