//! C17 Hijri conversion is the tabular Islamic calendar, day for day (complete input space).
use crate::common::*;
use crate::refm;
use chrono::{Datelike, NaiveDate};
use islamic_prayer_times::*;
use serde_json::{json, Value};

pub const EPOCH: i64 = 227015;

fn fdiv(a: i64, b: i64) -> i64 {
    a.div_euclid(b)
}
pub fn fixed_from_islamic(y: i64, m: i64, d: i64) -> i64 {
    EPOCH - 1 + (y - 1) * 354 + fdiv(3 + 11 * y, 30) + 29 * (m - 1) + fdiv(m, 2) + d
}
/// (year, month, day) of the arithmetic Islamic calendar for fixed day number `rd` (Calendrical Calculations)
pub fn islamic_from_fixed(rd: i64) -> (i64, i64, i64) {
    let y = fdiv(30 * (rd - EPOCH) + 10646, 10631);
    let prior = rd - fixed_from_islamic(y, 1, 1);
    let m = fdiv(11 * prior + 330, 325);
    let d = rd - fixed_from_islamic(y, m, 1) + 1;
    (y, m, d)
}
pub fn leap(y: i64) -> bool {
    (11 * y + 14).rem_euclid(30) < 11
}
pub fn month_len(y: i64, m: i64) -> i64 {
    if m % 2 == 1 || (m == 12 && leap(y)) {
        30
    } else {
        29
    }
}
pub fn rd_of(date: NaiveDate) -> i64 {
    refm::jdn(date.year(), date.month(), date.day()) - 1721425
}

#[derive(Clone, Copy, PartialEq, Debug)]
pub struct H {
    y: i64, // astronomical Hijri year (<= 0 before the epoch)
    m: i64,
    d: i64,
}

thread_local! {
    /// the conversions this harness thread made most recently (oldest first): a conversion whose
    /// answer depends on what was converted before it is reported together with that history
    static RECENT: std::cell::RefCell<std::collections::VecDeque<NaiveDate>> = std::cell::RefCell::new(Default::default());
}
fn recent() -> Vec<String> {
    RECENT.with(|r| r.borrow().iter().map(|d| d.to_string()).collect())
}

/// observe the library for one date; None = panic
pub fn observe(date: NaiveDate) -> Result<(H, u8, String), String> {
    RECENT.with(|r| {
        let mut r = r.borrow_mut();
        if r.len() == 4 {
            r.pop_front();
        }
        r.push_back(date);
    });
    std::panic::catch_unwind(|| {
        let h = HijriDate::from(date);
        let y = if h.pre_epoch() { 1 - h.year() as i64 } else { h.year() as i64 };
        let m = h.month() as u8 as i64;
        let wd = h.day_of_week() as u8;
        let text = h.to_string();
        let _ = h.date();
        (H { y, m, d: h.day() as i64 }, wd, text)
    })
    .map_err(|_| crate::c07::take_panic_msg())
}

pub fn judge(ctx: &Ctx, l: &mut Local, date: NaiveDate, prev: &mut Option<H>) {
    l.evals += 1;
    let case = json!({"date": date_json(date), "preceded_on_this_thread_by": recent()});
    let key = date.to_string();
    let rd = rd_of(date);
    let (y, m, d) = islamic_from_fixed(rd);
    match observe(date) {
        Err(msg) => {
            ctx.violation("no_panic", &key, case, json!({"panic": msg, "expected": {"year": y, "month": m, "day": d}}));
            *prev = None;
        }
        Ok((h, wd, text)) => {
            if (h.y, h.m, h.d) != (y, m, d) {
                ctx.violation("equals_tabular_calendar", &key, case.clone(), json!({"library": {"year": h.y, "month": h.m, "day": h.d, "text": text}, "tabular": {"year": y, "month": m, "day": d}}));
            }
            // B.H. flag and year mapping are folded into h.y; check the printed era too
            // printing: layout is free, but the text must carry the day and the (displayed) year
            let shown_year = if y <= 0 { 1 - y } else { y };
            if text.trim().is_empty() || !text.contains(&d.to_string()) || !text.contains(&shown_year.to_string()) {
                ctx.violation("printed_text", &key, case.clone(), json!({"text": text, "must_contain_day": d, "must_contain_year": shown_year}));
            }
            let want_wd = ((refm::jdn(date.year(), date.month(), date.day()) + 1).rem_euclid(7) + 1) as u8; // 1 = Sunday (Ahad)
            if wd != want_wd {
                ctx.violation("weekday_equals_civil_weekday", &key, case.clone(), json!({"library_weekday_1_is_sunday": wd, "civil": want_wd}));
            }
            if let Some(p) = *prev {
                let succ = (h.y, h.m, h.d) == (p.y, p.m, p.d + 1) || (p.d == month_len(p.y, p.m) && ((h.y, h.m, h.d) == (p.y, p.m + 1, 1) || (p.m == 12 && (h.y, h.m, h.d) == (p.y + 1, 1, 1))));
                if !succ {
                    ctx.violation("successive_dates_map_to_successive_hijri_days", &key, case.clone(), json!({"previous": {"year": p.y, "month": p.m, "day": p.d}, "this": {"year": h.y, "month": h.m, "day": h.d}}));
                }
            }
            if h.d == 1 {
                l.nontrivial += 1; // month starts: the month-length / leap / year boundary decisions
                if h.m == 1 {
                    l.count("hijri_year_starts", 1);
                }
            }
            if ctx.want_sample() && (date == ymd(622, 7, 19) || date == ymd(1, 1, 1) || date == ymd(2024, 7, 7) || date == ymd(9999, 12, 31)) {
                ctx.sample(json!({"date": date_json(date), "hijri": text}));
            }
            *prev = Some(h);
        }
    }
}

pub fn explore(ctx: &Ctx) {
    crate::c07::install_quiet_hook();
    ctx.rule("every (order, date) is one case: the complete input space 0001-01-01..9999-12-31 ascending (with the successor clause), descending and in strided permutations, plus every ordered pair/triple of the month-boundary alphabet (both tiers); non-trivial = dates on which a Hijri month starts (the month-length, leap-year and year-boundary decisions), counted from the library's own output after it matched the reference");
    ctx.assume("reference: Calendrical Calculations arithmetic Islamic calendar, epoch RD 227015, floor division; Gregorian day number from integer JDN (independent of chrono and of the library)");
    // self-test of the reference
    assert_eq!(islamic_from_fixed(EPOCH), (1, 1, 1));
    assert_eq!(rd_of(ymd(622, 7, 19)), EPOCH);
    // Calendrical Calculations sample data (appendix C): R.D. -> arithmetic Islamic date
    assert_eq!(islamic_from_fixed(728714), (1416, 10, 5));
    assert_eq!(islamic_from_fixed(601716), (1058, 5, 18));
    assert_eq!(islamic_from_fixed(764652), (1518, 3, 5));
    assert_eq!(islamic_from_fixed(-214193), (-1245, 12, 9));
    assert_eq!(rd_of(ymd(1996, 2, 25)), 728714);
    assert_eq!(rd_of(ymd(1, 1, 1)), 1);
    let chunks: Vec<(i32, i32)> = (0..100).map(|i| (i * 100 + if i == 0 { 1 } else { 0 }, i * 100 + 99)).collect();
    ctx.alphabet("dates", json!({"range": "0001-01-01..9999-12-31", "count": 3652059}));
    par_jobs(ctx, &chunks, |(y0, y1), l| {
        let mut d = ymd(*y0, 1, 1);
        let end = ymd(*y1, 12, 31);
        // seed the successor check with the day before the chunk
        let mut prev: Option<H> = d.pred_opt().filter(|p| p.year() >= 1).and_then(|p| observe(p).ok()).map(|x| x.0);
        while d <= end {
            judge(ctx, l, d, &mut prev);
            if d == end {
                break;
            }
            d = d.succ_opt().unwrap();
        }
    });
    // ---- the same input space in other ORDERS (a conversion must not depend on what was converted before it)
    let quick = ctx.tier == Tier::Quick;
    let first = ymd(1, 1, 1);
    let n_all: i64 = 3652059;
    // (a) descending, day by day
    par_jobs(ctx, &chunks, |(y0, y1), l| {
        let mut d = ymd(*y1, 12, 31);
        let end = ymd(*y0, 1, 1);
        loop {
            judge(ctx, l, d, &mut None);
            if d == end {
                break;
            }
            d = d.pred_opt().unwrap();
        }
        l.count("descending_conversions", 1);
    });
    // (b) strided permutations of the complete space: step k (coprime to the number of dates), each one
    // walked on a single thread from start to end, so every date is converted after a date k days away
    let cands: Vec<i64> = if quick { vec![355, 10631, 146097, 1000003] } else { vec![29, 30, 59, 325, 354, 355, 709, 10631, 36525, 146097, 500009, 1000003, 1826029, 3652058 - 354] };
    let strides: Vec<i64> = cands.into_iter().filter(|k| gcd(*k, n_all) == 1).collect();
    ctx.alphabet("orders", json!({"ascending": 1, "descending": 1, "strided_permutations_step_days": strides, "each_covers": n_all}));
    par_jobs(ctx, &strides, |k, l| {
        let mut i: i64 = 0;
        for _ in 0..n_all {
            judge(ctx, l, first + chrono::Duration::days(i), &mut None);
            i = (i + *k) % n_all;
        }
        l.count("strided_sweeps", 1);
    });
    // (c) every ordered pair and triple over the month-boundary alphabet
    let years: Vec<i64> = if quick { vec![-639, 0, 1, 1441, 1442, 9665] } else { vec![-639, -1, 0, 1, 2, 29, 30, 31, 1440, 1441, 1442, 1445, 1446, 9665] };
    let mut alpha: Vec<NaiveDate> = vec![ymd(1, 1, 1), ymd(9999, 12, 31), ymd(622, 7, 18), ymd(622, 7, 19), ymd(622, 7, 20)];
    for &y in &years {
        for m in 1..=12 {
            for d in [1, month_len(y, m)] {
                let rd = fixed_from_islamic(y, m, d);
                if (1..=n_all).contains(&rd) {
                    alpha.push(first + chrono::Duration::days(rd - 1));
                }
            }
        }
    }
    alpha.sort();
    alpha.dedup();
    let tri: Vec<NaiveDate> = if quick { alpha.iter().cloned().filter(|d| d.year() > 2000 && d.year() < 2025).collect() } else { alpha.clone() };
    ctx.alphabet("sequences", json!({"alphabet": "first and last day of every month of the Hijri years listed, plus the ends of the domain and the epoch days", "hijri_years": years, "dates": alpha.len(), "ordered_pairs": alpha.len() * alpha.len(), "ordered_triples_over": tri.len(), "ordered_triples": tri.len() * tri.len() * tri.len()}));
    par_jobs(ctx, &alpha, |a, l| {
        for b in &alpha {
            judge(ctx, l, *a, &mut None);
            judge(ctx, l, *b, &mut None);
            l.count("ordered_pairs", 1);
        }
    });
    par_jobs(ctx, &tri, |a, l| {
        for b in &tri {
            for c in &tri {
                judge(ctx, l, *a, &mut None);
                judge(ctx, l, *b, &mut None);
                judge(ctx, l, *c, &mut None);
                l.count("ordered_triples", 1);
            }
        }
    });
    let _ = std::panic::take_hook();
}

fn gcd(a: i64, b: i64) -> i64 {
    if b == 0 {
        a.abs()
    } else {
        gcd(b, a % b)
    }
}

pub fn replay(ctx: &Ctx, _clause: &str, case: &Value) {
    crate::c07::install_quiet_hook();
    let mut l = Local::default();
    let date = NaiveDate::parse_from_str(case["date"].as_str().unwrap(), "%Y-%m-%d").unwrap();
    // re-create the history the failing conversion was made in (this process has converted nothing yet)
    let mut prev = None;
    let before: Vec<NaiveDate> = case["preceded_on_this_thread_by"].as_array().map(|a| a.iter().filter_map(|x| NaiveDate::parse_from_str(x.as_str()?, "%Y-%m-%d").ok()).collect()).unwrap_or_default();
    if before.is_empty() {
        prev = date.pred_opt().filter(|p| p.year() >= 1).and_then(|p| observe(p).ok()).map(|x| x.0);
    } else {
        for b in &before {
            let o = observe(*b);
            prev = if Some(*b) == date.pred_opt() { o.ok().map(|x| x.0) } else { None };
        }
        println!("  preceded by conversions of {:?}", before.iter().map(|d| d.to_string()).collect::<Vec<_>>());
    }
    judge(ctx, &mut l, date, &mut prev);
    println!("  library: {:?}", observe(date));
}
