//! C03 Fajr, Isha and Imsaak occur at the configured solar depression angle.
use crate::common::*;
use crate::refm;
use chrono::NaiveDate;
use islamic_prayer_times::*;
use serde_json::{json, Value};

pub const TOL_DECL: f64 = 0.03;
pub const TOL_INST: f64 = 0.5;

fn angle_defined(p: &Params, pr: Prayer) -> Option<f64> {
    use Prayer::*;
    match pr {
        Fajr if p.intervals[&Fajr] == 0.0 => Some(p.angles[&Fajr]),
        Isha if p.intervals[&Isha] == 0.0 => Some(p.angles[&Isha]),
        Imsaak if p.intervals[&Fajr] == 0.0 && p.intervals[&Imsaak] == 0.0 => Some(p.angles[&Fajr] + p.angles[&Imsaak]),
        _ => None,
    }
}

pub fn judge(ctx: &Ctx, l: &mut Local, p: &Params, site: Site, date: NaiveDate) {
    let r = pt(p, site.loc(), date, None);
    l.evals += 1;
    if judge_result(ctx, l, p, site, date, &r) {
        l.nontrivial += 1;
    }
    if ctx.want_sample() && date == ymd(2000, 3, 1) {
        ctx.sample(json!({"site": site, "date": date_json(date), "angles": [p.angles[&Prayer::Fajr], p.angles[&Prayer::Isha], p.angles[&Prayer::Imsaak]], "result": fmt_r(&r)}));
    }
}

/// the altitude / side-of-noon clauses on one result; returns whether any angle-defined time was judged
pub fn judge_result(ctx: &Ctx, l: &mut Local, p: &Params, site: Site, date: NaiveDate, r: &R) -> bool {
    let case = || PtCase::new(p, site, date);
    let Some(sd) = secs(r, Prayer::Dhuhr) else { return false };
    let dec0 = refm::dec_local_midnight(date, site.gmt);
    let jd_dhuhr = refm::jd_of(date, sd as f64 + 0.5, site.gmt);
    let inst_ok = (site.gmt - site.lon / 15.0).abs() <= 4.0;
    let mut any = false;
    for pr in [Prayer::Fajr, Prayer::Isha, Prayer::Imsaak] {
        let Some(a) = angle_defined(p, pr) else { continue };
        let Some(o) = off(&r, pr) else { continue };
        // a time flagged extreme is a fallback value, not a conventional one (C08/C09/C10 judge those)
        if flag(r, pr) == Some(true) {
            continue;
        }
        any = true;
        let name = format!("{:?}", pr);
        let h = o as f64 / 240.0; // degrees
        let e = refm::alt_from(site.lat, dec0, h) + a;
        l.margin("altitude_error_with_date_declination_deg", e);
        if e.abs() > TOL_DECL {
            ctx.violation("depression_angle_with_date_declination", &format!("{}_{}", name, case().key()), case().to_value(), json!({"prayer": name, "configured_angle": a, "error_deg": e, "tolerance": TOL_DECL, "result": fmt_r(&r)}));
        }
        if inst_ok {
            let e2 = refm::altitude(jd_dhuhr + o as f64 / 86400.0, site.lat, site.lon) + a;
            l.margin("instantaneous_altitude_error_deg", e2);
            if e2.abs() > TOL_INST {
                ctx.violation("depression_angle_instantaneous", &format!("{}_{}", name, case().key()), case().to_value(), json!({"prayer": name, "configured_angle": a, "error_deg": e2, "tolerance": TOL_INST, "result": fmt_r(&r)}));
            }
        }
        let side_ok = if pr == Prayer::Isha { o > 0 } else { o < 0 };
        if !side_ok {
            ctx.violation("side_of_noon", &format!("{}_{}", name, case().key()), case().to_value(), json!({"prayer": name, "offset_from_dhuhr_s": o, "result": fmt_r(&r)}));
        }
    }
    any
}

pub const IMSAAK_ANGLES: [f64; 5] = [0.5, 1.0, 1.5, 2.0, 3.0];

fn custom(fajr: f64, isha: f64, imsaak: f64) -> Params {
    let mut p = params_conv(Method::Mwl);
    p.angles.insert(Prayer::Fajr, fajr);
    p.angles.insert(Prayer::Isha, isha);
    p.angles.insert(Prayer::Imsaak, imsaak);
    p
}

/// monotonicity along the angle chains 9..21 (Fajr, Isha) and 0.5..3 (Imsaak) for one site and date
pub fn judge_chain(ctx: &Ctx, l: &mut Local, site: Site, date: NaiveDate, full_pairs: bool) {
    let mut fajr: Vec<(f64, Option<i64>)> = vec![];
    let mut isha: Vec<(f64, Option<i64>)> = vec![];
    for a in 9..=21 {
        let a = a as f64;
        let p = custom(a, a, 1.5);
        let r = pt(&p, site.loc(), date, None);
        l.evals += 1;
        judge_result(ctx, l, &p, site, date, &r);
        fajr.push((a, off(&r, Prayer::Fajr)));
        isha.push((a, off(&r, Prayer::Isha)));
        // Imsaak chain for this Fajr angle
        let mut prev: Option<(f64, i64)> = None;
        for ia in IMSAAK_ANGLES {
            let p2 = custom(a, 30.0 - a, ia);
            let r2 = pt(&p2, site.loc(), date, None);
            l.evals += 1;
            if off(&r2, Prayer::Fajr) != off(&r, Prayer::Fajr) {
                ctx.violation("fajr_depends_only_on_fajr_angle", &format!("{}_{}_{}", site.key(), date, a), PtCase::new(&p2, site, date).to_value(), json!({"with_isha_eq_fajr": fmt_r(&r), "with_other_isha_and_imsaak_angle": fmt_r(&r2)}));
            }
            if let Some(o) = off(&r2, Prayer::Imsaak) {
                if let Some(of) = off(&r2, Prayer::Fajr) {
                    if o > of {
                        ctx.violation("imsaak_not_after_fajr", &format!("{}_{}_{}_{}", site.key(), date, a, ia), PtCase::new(&p2, site, date).to_value(), json!({"result": fmt_r(&r2)}));
                    }
                }
                if let Some((pa, po)) = prev {
                    if o > po {
                        ctx.violation("larger_imsaak_angle_never_later", &format!("{}_{}_{}_{}", site.key(), date, a, ia), PtCase::new(&p2, site, date).with_extra(json!({"chain_prev_imsaak_angle": pa})).to_value(), json!({"imsaak_angle": ia, "offset_s": o, "prev_angle": pa, "prev_offset_s": po}));
                    }
                }
                prev = Some((ia, o));
            }
        }
        if full_pairs {
            for b in 9..=21 {
                let b = b as f64;
                if b == a {
                    continue;
                }
                let p3 = custom(a, b, 1.5);
                let r3 = pt(&p3, site.loc(), date, None);
                l.evals += 1;
                let rb = pt(&custom(b, b, 1.5), site.loc(), date, None);
                if off(&r3, Prayer::Fajr) != off(&r, Prayer::Fajr) || off(&r3, Prayer::Isha) != off(&rb, Prayer::Isha) {
                    ctx.violation("angle_pair_independence", &format!("{}_{}_{}_{}", site.key(), date, a, b), PtCase::new(&p3, site, date).to_value(), json!({"pair": fmt_r(&r3)}));
                }
            }
        }
    }
    l.nontrivial += 1;
    for w in fajr.windows(2) {
        if let ((a0, Some(o0)), (a1, Some(o1))) = (w[0], w[1]) {
            if o1 > o0 {
                ctx.violation("larger_fajr_angle_never_later", &format!("{}_{}_{}", site.key(), date, a1), PtCase::new(&custom(a1, a1, 1.5), site, date).with_extra(json!({"chain_prev_angle": a0})).to_value(), json!({"angle": a1, "offset_s": o1, "prev_angle": a0, "prev_offset_s": o0}));
            }
        }
    }
    for w in isha.windows(2) {
        if let ((a0, Some(o0)), (a1, Some(o1))) = (w[0], w[1]) {
            if o1 < o0 {
                ctx.violation("larger_isha_angle_never_earlier", &format!("{}_{}_{}", site.key(), date, a1), PtCase::new(&custom(a1, a1, 1.5), site, date).with_extra(json!({"chain_prev_angle": a0})).to_value(), json!({"angle": a1, "offset_s": o1, "prev_angle": a0, "prev_offset_s": o0}));
            }
        }
    }
}

pub fn explore(ctx: &Ctx) {
    let quick = ctx.tier == Tier::Quick;
    ctx.rule("every (site, date, params) tuple enumerated once; non-trivial = at least one angle-defined Fajr/Isha/Imsaak was reported and judged (altitude clauses) resp. one complete angle chain 9..21 x Imsaak 0.5..3 evaluated for a (site, date)");
    ctx.assume("'that date's declination' = reference declination at 0 h local time of the civil date");
    ctx.assume("instantaneous clause only for |GMT - lon/15| <= 4 h (beyond that the algorithm's stale declination itself approaches 0.5 deg)");
    ctx.assume("conventional calculation = ExtremeLatitudeMethod::None, unrounded seconds");
    let all = d_all();
    let lats = [0.0, 15.0, -15.0, 30.0, -30.0, 40.0, -40.0, 48.0, -48.0, 55.0, -55.0, 60.0, -60.0];
    let zs: Vec<(f64, f64)> = if quick { vec![(-77.2086, -5.0), (39.8233, 3.0), (151.2, 10.0), (0.0, 4.0), (-180.0, -8.0)] } else { vec![(-180.0, -12.0), (-180.0, -8.0), (-120.0, -8.0), (-77.2086, -5.0), (-30.0, -6.0), (0.0, 0.0), (0.0, 4.0), (39.8233, 3.0), (82.5, 5.5), (120.0, 4.0), (151.2, 10.0), (180.0, 12.0)] };
    let mut jobs = vec![];
    let mut n = 0;
    for &lat in &lats {
        for &(lon, gmt) in &zs {
            for m in ANGLE6 {
                n += 1;
                if quick && n % 6 != 0 {
                    continue;
                }
                jobs.push((Site::new(lat, lon, 0.0, gmt), params_conv(m)));
            }
        }
    }
    // far-from-natural zone offsets (Dhuhr-relative times wrap around local midnight)
    for (lat, lon, gmt) in [(30.0, 0.0, 9.0), (-45.0, 120.0, -4.0), (55.0, -60.0, 6.0), (-15.0, -150.0, 2.0)] {
        for m in [Method::Mwl, Method::Egyptian] {
            jobs.push((Site::new(lat, lon, 0.0, gmt), params_conv(m)));
        }
    }
    for (i, s) in off_lattice_sites(quick, 60.0).into_iter().enumerate() {
        jobs.push((s, params_conv(ANGLE6[i % 6])));
    }
    ctx.alphabet("main", json!({"off_lattice_sites": off_lattice_sites(quick, 60.0), "far_zone_sites": 4, "jobs_site_x_method": jobs.len(), "lats": lats, "zones": zs, "methods": "ANGLE6", "dates": all.len()}));
    par_jobs(ctx, &jobs, |(site, p), l| {
        for &d in &all {
            judge(ctx, l, p, *site, d);
        }
    });
    // custom angle corners over selected years
    let yd = dates_of_years(&YEARS6);
    let mut jobs2 = vec![];
    for &lat in &lats {
        for &(lon, gmt) in zs.iter().take(if quick { 2 } else { zs.len() }) {
            for (fa, ia, im) in [(9.0, 21.0, 0.5), (21.0, 9.0, 3.0), (12.0, 12.0, 1.0), (16.5, 14.0, 2.0)] {
                jobs2.push((Site::new(lat, lon, 0.0, gmt), custom(fa, ia, im)));
            }
        }
    }
    ctx.alphabet("custom_angles", json!({"jobs": jobs2.len(), "angle_triples_fajr_isha_imsaak": [[9, 21, 0.5], [21, 9, 3], [12, 12, 1], [16.5, 14, 2]], "dates": yd.len()}));
    par_jobs(ctx, &jobs2, |(site, p), l| {
        for &d in &yd {
            judge(ctx, l, p, *site, d);
        }
    });
    // under 'only if invalid' policies every time that is NOT flagged extreme still claims to be the
    // conventional one: it must sit at its configured depression as well
    let mut jobs3 = vec![];
    for &lat in &[48.0, -48.0, 52.0, 55.0, -55.0, 60.0, -60.0] {
        for pol in [ExtremeLatitudeMethod::NearestGoodDayFajrIshaInvalid, ExtremeLatitudeMethod::AngleBased, ExtremeLatitudeMethod::SeventhOfNightFajrIshaInvalid, ExtremeLatitudeMethod::NearestLatitudeFajrIshaInvalid(lat_of(45.0)), ExtremeLatitudeMethod::SeventhOfDayFajrIshaInvalid, ExtremeLatitudeMethod::HalfOfNightFajrIshaInvalid, ExtremeLatitudeMethod::MinutesFromMaghribFajrIshaInvalid] {
            for m in [Method::Mwl, Method::Egyptian, Method::Isna] {
                jobs3.push((Site::new(lat, 25.0, 0.0, 2.0), params(m, pol, RoundSeconds::None)));
            }
        }
    }
    let yd3 = dates_of_years(if quick { &[2024] } else { &YEARS6 });
    ctx.alphabet("unflagged_times_under_invalid_only_policies", json!({"jobs": jobs3.len(), "lats": [48, -48, 52, 55, -55, 60, -60], "policies": "all 7 that replace only what is missing", "methods": 3, "dates": yd3.len()}));
    par_jobs(ctx, &jobs3, |(site, p), l| {
        for &d in &yd3 {
            judge(ctx, l, p, *site, d);
        }
    });
    // the validity frontier in the angle, to the last bit: whatever IS reported must still sit at its angle
    let fc = angle_frontier_cases(quick);
    ctx.alphabet("angle_frontier", json!({"site_dates": fc.len(), "prayers": ["Fajr", "Isha"], "probes_per_frontier": "<= 64 bisection probes + 2 x 17 ulp neighbours + 12 geometric approaches", "exempt": "a reported time within 2 s of lower culmination (12 h from Dhuhr): its side of noon is undefined"}));
    par_jobs(ctx, &fc, |(site, date), l| {
        for which in [Prayer::Fajr, Prayer::Isha] {
            let Some(ps) = angle_frontier(*site, *date, which) else { continue };
            l.count("angle_frontiers_located", 1);
            for p in &ps {
                let r = pt(p, site.loc(), *date, None);
                l.evals += 1;
                if [Prayer::Fajr, Prayer::Isha, Prayer::Imsaak].iter().any(|k| off(&r, *k).map(|o| o.abs() >= 43198).unwrap_or(false)) {
                    l.count("frontier_probe_at_lower_culmination_exempt", 1);
                    continue;
                }
                if judge_result(ctx, l, p, *site, *date, &r) {
                    l.nontrivial += 1;
                }
            }
        }
    });
    // chains
    let cd = if quick { dates_of_years(&[2023, 2024]) } else { yd.clone() };
    let mut cs = vec![];
    for &lat in &lats {
        for &(lon, gmt) in zs.iter().take(if quick { 1 } else { 3 }) {
            cs.push(Site::new(lat, lon, 0.0, gmt));
        }
    }
    ctx.alphabet("chains", json!({"sites": cs.len(), "dates": cd.len(), "fajr_isha_angles": "9..=21 step 1", "imsaak_angles": IMSAAK_ANGLES, "all_13x13_pairs": !quick}));
    par_jobs(ctx, &cs, |site, l| {
        for &d in &cd {
            judge_chain(ctx, l, *site, d, !quick);
        }
    });
}

pub fn replay(ctx: &Ctx, clause: &str, case: &Value) {
    let c: PtCase = serde_json::from_value::<PtCase>(case.clone()).map(PtCase::fix).expect("case");
    let mut l = Local::default();
    if clause.contains("never") || clause.contains("independence") || clause.contains("depends_only") || clause.contains("not_after") {
        judge_chain(ctx, &mut l, c.site, c.date, true);
    } else {
        judge(ctx, &mut l, &c.params, c.site, c.date);
    }
    println!("  result: {}", fmt_r(&c.run()));
}
