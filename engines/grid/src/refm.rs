//! Independent reference ephemeris: Meeus, Astronomical Algorithms ch. 25 (low accuracy Sun),
//! equation of time (28.1), integer Fliegel-Van Flandern JDN. Deliberately a different route to
//! the hour angle than the library's (mean solar time + equation of time, no sidereal time).

use chrono::{Datelike, NaiveDate};

pub fn jdn(y: i32, m: u32, d: u32) -> i64 {
    let (y, m, d) = (y as i64, m as i64, d as i64);
    let a = (14 - m) / 12;
    let yy = y + 4800 - a;
    let mm = m + 12 * a - 3;
    d + (153 * mm + 2) / 5 + 365 * yy + yy / 4 - yy / 100 + yy / 400 - 32045
}
/// JD of 0h UT of the civil date
pub fn jd0(date: NaiveDate) -> f64 {
    jdn(date.year(), date.month(), date.day()) as f64 - 0.5
}
/// JD (UT) of clock time `secs` (seconds after local midnight, may be fractional) on civil `date`
/// at a place whose clock is `gmt` hours ahead of UT.
pub fn jd_of(date: NaiveDate, secs: f64, gmt: f64) -> f64 {
    jd0(date) + (secs / 3600.0 - gmt) / 24.0
}
pub fn norm360(x: f64) -> f64 {
    let r = x % 360.0;
    if r < 0.0 {
        r + 360.0
    } else {
        r
    }
}
pub fn norm180(x: f64) -> f64 {
    let r = norm360(x);
    if r > 180.0 {
        r - 360.0
    } else {
        r
    }
}
pub struct Sun {
    pub ra: f64,
    pub dec: f64,
    pub eot_deg: f64,
}
pub fn sun(jd: f64) -> Sun {
    let t = (jd - 2451545.0) / 36525.0;
    let l0 = norm360(280.46646 + 36000.76983 * t + 0.0003032 * t * t);
    let m = norm360(357.52911 + 35999.05029 * t - 0.0001537 * t * t).to_radians();
    let c = (1.914602 - 0.004817 * t - 0.000014 * t * t) * m.sin()
        + (0.019993 - 0.000101 * t) * (2.0 * m).sin()
        + 0.000289 * (3.0 * m).sin();
    let tl = l0 + c;
    let om = (125.04 - 1934.136 * t).to_radians();
    let lam = (tl - 0.00569 - 0.00478 * om.sin()).to_radians();
    let eps0 = 23.0 + 26.0 / 60.0 + 21.448 / 3600.0
        - (46.8150 * t + 0.00059 * t * t - 0.001813 * t * t * t) / 3600.0;
    let eps = (eps0 + 0.00256 * om.cos()).to_radians();
    let ra = norm360((eps.cos() * lam.sin()).atan2(lam.cos()).to_degrees());
    let dec = (eps.sin() * lam.sin()).asin().to_degrees();
    let dpsi = -0.00478 * om.sin();
    let eot = norm180(l0 - 0.0057183 - ra + dpsi * eps.cos());
    Sun { ra, dec, eot_deg: eot }
}
/// hour angle of the Sun in degrees (+ = west of the meridian) at UT instant `jd`, east longitude `lon`
pub fn hour_angle(jd: f64, lon: f64) -> f64 {
    let s = sun(jd);
    let ut_hours = ((jd + 0.5) - (jd + 0.5).floor()) * 24.0;
    norm180(15.0 * (ut_hours - 12.0) + lon + s.eot_deg)
}
/// geometric altitude of the Sun's centre (degrees) at UT instant `jd`
pub fn altitude(jd: f64, lat: f64, lon: f64) -> f64 {
    let s = sun(jd);
    alt_from(lat, s.dec, hour_angle(jd, lon))
}
/// altitude for a given declination and hour angle (degrees)
pub fn alt_from(lat: f64, dec: f64, h_deg: f64) -> f64 {
    let (la, de, h) = (lat.to_radians(), dec.to_radians(), h_deg.to_radians());
    (la.sin() * de.sin() + la.cos() * de.cos() * h.cos()).clamp(-1.0, 1.0).asin().to_degrees()
}
/// "that date's declination": reference declination at 0h local time of the civil date
pub fn dec_local_midnight(date: NaiveDate, gmt: f64) -> f64 {
    sun(jd0(date) - gmt / 24.0).dec
}

/// Self test against Meeus' worked examples (25.a, 28.a); panics (machinery failure) when off.
pub fn self_test() {
    // Example 25.a: 1992 October 13, 0h TD = JDE 2448908.5: apparent RA 198.38083, dec -7.78507
    let s = sun(2448908.5);
    assert!((s.ra - 198.38083).abs() < 0.005, "ref ephemeris RA self-test {}", s.ra);
    assert!((s.dec + 7.78507).abs() < 0.003, "ref ephemeris dec self-test {}", s.dec);
    // Example 28.a: equation of time +13m42.6s = 3.427 deg
    assert!((s.eot_deg - 3.427).abs() < 0.01, "ref ephemeris EoT self-test {}", s.eot_deg);
    assert_eq!(jdn(2000, 1, 1), 2451545);
    assert_eq!(jdn(1600, 2, 29) + 1, jdn(1600, 3, 1));
    assert_eq!(jdn(1957, 10, 4), 2436116);
}
