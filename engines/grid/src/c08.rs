//! C08 Fallback policies change only what they name and flag exactly what they replace.
//! Differential oracle: result under policy P vs the conventional result (policy None).
use crate::common::*;
use chrono::NaiveDate;
use islamic_prayer_times::*;
use serde_json::{json, Value};

pub fn is_invalid_variant(p: ExtremeLatitudeMethod) -> bool {
    use ExtremeLatitudeMethod::*;
    matches!(p, NearestLatitudeFajrIshaInvalid(_) | NearestGoodDayFajrIshaInvalid | SeventhOfNightFajrIshaInvalid | SeventhOfDayFajrIshaInvalid | HalfOfNightFajrIshaInvalid | MinutesFromMaghribFajrIshaInvalid)
}
pub fn is_all_prayers(p: ExtremeLatitudeMethod) -> bool {
    use ExtremeLatitudeMethod::*;
    matches!(p, NearestLatitudeAllPrayersAlways(_) | NearestGoodDayAllPrayersAlways)
}
pub fn is_half(p: ExtremeLatitudeMethod) -> bool {
    use ExtremeLatitudeMethod::*;
    matches!(p, HalfOfNightFajrIshaAlways | HalfOfNightFajrIshaInvalid)
}
pub fn consumes_intervals(p: ExtremeLatitudeMethod) -> bool {
    is_half(p) || matches!(p, ExtremeLatitudeMethod::MinutesFromMaghribFajrIshaInvalid)
}
pub fn interval_method(p: &Params) -> bool {
    p.intervals[&Prayer::Fajr] != 0.0 || p.intervals[&Prayer::Isha] != 0.0
}

/// the same parameters with the Fajr/Isha intervals removed (what the policies look at)
pub fn angle_only(p: &Params) -> Params {
    let mut q = p.clone();
    q.intervals.insert(Prayer::Fajr, 0.0);
    q.intervals.insert(Prayer::Isha, 0.0);
    q
}

/// judge one (params with policy, site, date) against the conventional result r0
pub fn judge(ctx: &Ctx, l: &mut Local, p: &Params, site: Site, date: NaiveDate, r0: &R, r_ang: &R) {
    use Prayer::*;
    let pol = p.extreme_latitude_method;
    if consumes_intervals(pol) && interval_method(p) {
        return; // outside the property's quantifier
    }
    let r = pt(p, site.loc(), date, None);
    l.evals += 1;
    let case = || PtCase::new(p, site, date);
    let k = |pr: Prayer| format!("{:?}_{}", pr, case().key());
    let detail = |pr: Prayer| json!({"prayer": format!("{:?}", pr), "policy": format!("{:?}", pol), "conventional": fmt_r(r0), "with_policy": fmt_r(&r)});
    if r != *r0 {
        l.nontrivial += 1;
        l.count("policy_engaged", 1);
        if ctx.want_sample() && date.format("%d").to_string() == "21" {
            ctx.sample(json!({"site": site, "date": date_json(date), "policy": format!("{:?}", pol), "conventional": fmt_r(r0), "with_policy": fmt_r(&r)}));
        }
    }
    // Known family (KNOWN_FINDINGS.txt): an interval-defined Fajr/Isha whose underlying angle-based time
    // is missing while the interval time exists - the policy engages on the hidden angle-based value.
    let fam = [Fajr, Isha].iter().any(|pr| p.intervals[pr] != 0.0 && r_ang[pr].is_err() && r0[pr].is_ok());
    const FAM: &str = "policy_engaged_by_missing_angle_time_of_interval_defined_prayer";
    // (i) Fajr/Isha-restricted policies never touch the other four
    if !is_all_prayers(pol) {
        for pr in [Shurooq, Dhuhr, Asr, Maghrib] {
            if r[&pr] != r0[&pr] {
                ctx.violation("restricted_policy_leaves_other_four_untouched", &k(pr), case().to_value(), detail(pr));
            }
        }
    }
    // (ii) 'only if invalid' policies keep every conventionally valid Fajr/Isha, unflagged
    if is_invalid_variant(pol) {
        for pr in [Fajr, Isha] {
            if r0[&pr].is_ok() && r[&pr] != r0[&pr] {
                ctx.violation(if fam { FAM } else { "invalid_policy_keeps_valid_fajr_isha" }, &k(pr), case().to_value(), detail(pr));
            }
        }
    }
    // identity on days where all six conventional times exist
    if (is_invalid_variant(pol) || pol == ExtremeLatitudeMethod::AngleBased) && SIX.iter().all(|pr| r0[pr].is_ok()) && r0[&Imsaak].is_ok() && r != *r0 {
        ctx.violation(if fam { FAM } else { "identity_when_all_times_exist" }, &case().key(), case().to_value(), detail(Fajr));
    }
    // (iii) unflagged => conventional; replaced => flagged
    if !is_half(pol) {
        for pr in SEQ7 {
            match (r0[&pr], r[&pr]) {
                (Ok(a), Ok(b)) => {
                    if !b.extreme && b.time != a.time {
                        ctx.violation("unflagged_time_equals_conventional", &k(pr), case().to_value(), detail(pr));
                    }
                }
                (Err(_), Ok(b)) => {
                    if !b.extreme {
                        ctx.violation("replaced_time_is_flagged", &k(pr), case().to_value(), detail(pr));
                    }
                }
                _ => {}
            }
        }
    }
    if r.len() != 7 {
        ctx.violation("seven_entries", &case().key(), case().to_value(), detail(Fajr));
    }
}

pub fn explore(ctx: &Ctx) {
    // call sequences from non-initial states (see history.rs)
    if ctx.tier == Tier::Thorough {
        crate::history::explore(ctx, "policy_full", &crate::history::alphabet_policy_full(), 2);
    }
    crate::history::explore(ctx, "long_ranges", &crate::history::alphabet_long_ranges(), 2);
    crate::history::explore(ctx, "policy", &crate::history::alphabet_policy(), 3);
    let quick = ctx.tier == Tier::Quick;
    ctx.rule("every (site, date, method, policy) enumerated once and compared with the conventional result of the same (site, date, method); non-trivial = the policy engaged (result differs from the conventional one)");
    ctx.assume("conventional result = same call with ExtremeLatitudeMethod::None; unrounded seconds; exact equality of times (same computation path)");
    ctx.assume("half-of-night and minutes-from-maghrib-invalid only with angle-based methods; half-of-night exempt from the flag clause (as the property states)");
    ctx.assume("not demanded: that a conventionally valid time stays valid under an 'always' policy");
    let lats = [0.0, 30.0, -30.0, 49.0, -49.0, 55.0, -55.0, 62.0, -62.0, 67.5, -67.5, 70.0, -70.0];
    let zs: Vec<(f64, f64)> = if quick { vec![(25.0, 2.0)] } else { vec![(25.0, 2.0), (-122.0, -8.0)] };
    let dates: Vec<NaiveDate> = if quick { dates_of_years(&[2023, 2024]) } else { { let mut ys: Vec<i32> = (1600..2400).step_by(20).collect(); ys.extend([2023, 2024, 2399]); ys.into_iter().flat_map(|y| dates_years(y, y)).collect() } };
    let mut pols = policies14(48.5);
    // the nearest-latitude policies carry a payload: other substitute latitudes than the default one
    for sub in if quick { vec![45.0, 52.0] } else { vec![45.0, 46.3, 52.0, 40.0] } {
        use ExtremeLatitudeMethod::*;
        pols.extend([NearestLatitudeAllPrayersAlways(lat_of(sub)), NearestLatitudeFajrIshaAlways(lat_of(sub)), NearestLatitudeFajrIshaInvalid(lat_of(sub))]);
    }
    let mut jobs = vec![];
    // off-lattice sites and zones running hours ahead of / behind the meridian (evening times near 24:00,
    // morning times near 00:00: the wrap of the derived hours is exercised under every policy)
    let mut extra = off_lattice_sites(quick, 70.0);
    extra.extend([Site::new(39.47, 75.99, 1290.0, 8.0), Site::new(55.0, 60.0, 0.0, 9.0), Site::new(-49.0, -60.0, 0.0, 1.0), Site::new(62.0, 25.0, 0.0, -3.0)]);
    for s in &extra {
        for (i, m) in NAMED8.iter().enumerate() {
            if quick && i % 2 == 0 && s.lat.abs() < 45.0 && s.gmt != 8.0 {
                continue;
            }
            jobs.push((*s, *m));
        }
    }
    ctx.alphabet("extra_sites", json!(extra));
    for &lat in &lats {
        for &(lon, gmt) in &zs {
            for m in NAMED8 {
                jobs.push((Site::new(lat, lon, 0.0, gmt), m));
            }
        }
    }
    jobs.sort_by(|a, b| b.0.lat.abs().partial_cmp(&a.0.lat.abs()).unwrap());
    ctx.alphabet("lats", json!(lats));
    ctx.alphabet("zones", json!(zs));
    ctx.alphabet("methods", json!("NAMED8"));
    ctx.alphabet("policies", json!(pols.iter().map(|p| format!("{:?}", p)).collect::<Vec<_>>()));
    ctx.alphabet("dates", json!({"count": dates.len(), "first": date_json(dates[0]), "last": date_json(*dates.last().unwrap())}));
    par_jobs(ctx, &jobs, |(site, m), l| {
        let p0 = params_conv(*m);
        for &d in &dates {
            let r0 = pt(&p0, site.loc(), d, None);
            l.evals += 1;
            let r_ang = if interval_method(&p0) { l.evals += 1; pt(&angle_only(&p0), site.loc(), d, None) } else { r0.clone() };
            for &pol in &pols {
                let p = params(*m, pol, RoundSeconds::None);
                judge(ctx, l, &p, *site, d, &r0, &r_ang);
            }
        }
    });
}

pub fn replay(ctx: &Ctx, _clause: &str, case: &Value) {
    let c: PtCase = serde_json::from_value::<PtCase>(case.clone()).map(PtCase::fix).expect("case");
    let mut l = Local::default();
    let mut p0 = c.params.clone();
    p0.extreme_latitude_method = ExtremeLatitudeMethod::None;
    let r0 = pt(&p0, c.site.loc(), c.date, None);
    let r_ang = pt(&angle_only(&p0), c.site.loc(), c.date, None);
    judge(ctx, &mut l, &c.params, c.site, c.date, &r0, &r_ang);
    println!("  conventional: {}\n  with policy:  {}", fmt_r(&r0), fmt_r(&c.run()));
}
