//! Shared infrastructure of engine G/P: run context, counters, evidence, violations, known findings,
//! alphabets and time-observation helpers.

use chrono::{Datelike, NaiveDate, Timelike};
use islamic_prayer_times::*;
use serde::{Deserialize, Serialize};
use serde_json::{json, Map, Value};
use std::collections::{BTreeMap, BTreeSet, HashMap};
use std::sync::atomic::{AtomicU64, AtomicUsize, Ordering};
use std::sync::Mutex;
use std::time::Instant;

/// root of the verification tree (evidence/, replays/, target/): $IPT_VERIF_DIR, default /verif
pub fn verif_dir() -> String {
    std::env::var("IPT_VERIF_DIR").unwrap_or_else(|_| "/verif".to_string())
}
pub const MAX_REPLAYS: usize = 20;

#[derive(Clone, Copy, PartialEq, Eq, Debug)]
pub enum Tier {
    Quick,
    Thorough,
}
impl Tier {
    pub fn name(&self) -> &'static str {
        match self {
            Tier::Quick => "quick",
            Tier::Thorough => "thorough",
        }
    }
    pub fn pick<T>(&self, q: T, t: T) -> T {
        match self {
            Tier::Quick => q,
            Tier::Thorough => t,
        }
    }
}

pub type R = BTreeMap<Prayer, Result<PrayerTime, ()>>;
pub const SEQ7: [Prayer; 7] = [
    Prayer::Imsaak,
    Prayer::Fajr,
    Prayer::Shurooq,
    Prayer::Dhuhr,
    Prayer::Asr,
    Prayer::Maghrib,
    Prayer::Isha,
];
pub const SIX: [Prayer; 6] = [
    Prayer::Fajr,
    Prayer::Shurooq,
    Prayer::Dhuhr,
    Prayer::Asr,
    Prayer::Maghrib,
    Prayer::Isha,
];

/// Per-worker accumulator, merged into the context when a job ends.
#[derive(Default)]
pub struct Local {
    pub evals: u64,
    pub nontrivial: u64,
    pub counters: HashMap<&'static str, u64>,
    pub margins: HashMap<&'static str, f64>,
}
impl Local {
    pub fn count(&mut self, k: &'static str, n: u64) {
        *self.counters.entry(k).or_insert(0) += n;
    }
    /// keep the value with the largest magnitude
    pub fn margin(&mut self, k: &'static str, v: f64) {
        let e = self.margins.entry(k).or_insert(0.0);
        if v.abs() > e.abs() {
            *e = v;
        }
    }
}

pub struct Known {
    pub property: String,
    pub key: String,
    pub text: String,
}

pub struct Ctx {
    pub id: String,
    pub tier: Tier,
    pub seed: i64,
    pub level: &'static str,
    pub t0: Instant,
    pub evals: AtomicU64,
    pub nontrivial: AtomicU64,
    pub counters: Mutex<BTreeMap<String, u64>>,
    pub margins: Mutex<BTreeMap<String, f64>>,
    pub samples: Mutex<Vec<Value>>,
    pub alphabets: Mutex<Map<String, Value>>,
    pub extra: Mutex<Map<String, Value>>,
    pub assumptions: Mutex<Vec<String>>,
    pub rule: Mutex<String>,
    pub viol_total: AtomicU64,
    pub viol_keys: Mutex<BTreeSet<String>>,
    pub viol_files: Mutex<Vec<String>>,
    pub known_hits: Mutex<BTreeMap<String, u64>>,
    pub known: Vec<Known>,
    pub replay_mode: bool,
}

impl Ctx {
    pub fn new(id: &str, tier: Tier, level: &'static str) -> Ctx {
        let seed = std::env::var("VERIF_SEED").ok().and_then(|s| s.parse().ok()).unwrap_or(0);
        Ctx {
            id: id.to_string(),
            tier,
            seed,
            level,
            t0: Instant::now(),
            evals: AtomicU64::new(0),
            nontrivial: AtomicU64::new(0),
            counters: Mutex::new(BTreeMap::new()),
            margins: Mutex::new(BTreeMap::new()),
            samples: Mutex::new(vec![]),
            alphabets: Mutex::new(Map::new()),
            extra: Mutex::new(Map::new()),
            assumptions: Mutex::new(vec![]),
            rule: Mutex::new(String::new()),
            viol_total: AtomicU64::new(0),
            viol_keys: Mutex::new(BTreeSet::new()),
            viol_files: Mutex::new(vec![]),
            known_hits: Mutex::new(BTreeMap::new()),
            known: load_known(id),
            replay_mode: false,
        }
    }
    pub fn merge(&self, l: Local) {
        self.evals.fetch_add(l.evals, Ordering::Relaxed);
        self.nontrivial.fetch_add(l.nontrivial, Ordering::Relaxed);
        if !l.counters.is_empty() {
            let mut c = self.counters.lock().unwrap();
            for (k, v) in l.counters {
                *c.entry(k.to_string()).or_insert(0) += v;
            }
        }
        if !l.margins.is_empty() {
            let mut m = self.margins.lock().unwrap();
            for (k, v) in l.margins {
                let e = m.entry(k.to_string()).or_insert(0.0);
                if v.abs() > e.abs() {
                    *e = v;
                }
            }
        }
    }
    pub fn alphabet(&self, name: &str, v: Value) {
        self.alphabets.lock().unwrap().insert(name.to_string(), v);
    }
    pub fn extra(&self, name: &str, v: Value) {
        self.extra.lock().unwrap().insert(name.to_string(), v);
    }
    pub fn assume(&self, s: &str) {
        self.assumptions.lock().unwrap().push(s.to_string());
    }
    pub fn rule(&self, s: &str) {
        *self.rule.lock().unwrap() = s.to_string();
    }
    pub fn sample(&self, v: Value) {
        let mut s = self.samples.lock().unwrap();
        if s.len() < 8 {
            s.push(v);
        }
    }
    pub fn want_sample(&self) -> bool {
        self.samples.lock().unwrap().len() < 8
    }

    /// Report a violation. `key` identifies the failing input (stable across runs); `case` is the
    /// self-contained replayable input; returns true if it is new (not a known finding).
    pub fn violation(&self, clause: &str, key: &str, case: Value, detail: Value) -> bool {
        let full_key = format!("{}:{}", clause, key);
        for k in &self.known {
            if full_key.starts_with(&k.key) {
                let mut h = self.known_hits.lock().unwrap();
                *h.entry(k.key.clone()).or_insert(0) += 1;
                return false;
            }
        }
        self.viol_total.fetch_add(1, Ordering::Relaxed);
        let mut keys = self.viol_keys.lock().unwrap();
        if keys.contains(&full_key) || keys.len() >= MAX_REPLAYS {
            return true;
        }
        keys.insert(full_key.clone());
        let n = keys.len();
        drop(keys);
        if self.replay_mode {
            println!("  reproduced: clause={} detail={}", clause, detail);
            return true;
        }
        let dir = format!("{}/replays/{}", verif_dir(), self.id);
        let _ = std::fs::create_dir_all(&dir);
        let path = format!("{}/{}-{}-{:02}.json", dir, self.tier.name(), sanitize(clause), n);
        let doc = json!({"property": self.id, "clause": clause, "key": full_key, "case": case, "detail": detail});
        std::fs::write(&path, serde_json::to_string_pretty(&doc).unwrap()).expect("write replay");
        println!("VIOLATION property={} replay={}", self.id, path);
        println!("  clause={} key={} detail={}", clause, key, detail);
        self.viol_files.lock().unwrap().push(path);
        true
    }

    /// Write the evidence file and return the process exit code.
    pub fn finish(&self) -> i32 {
        let wall = self.t0.elapsed().as_secs_f64();
        for (k, n) in self.known_hits.lock().unwrap().iter() {
            let text = self.known.iter().find(|x| &x.key == k).map(|x| x.text.clone()).unwrap_or_default();
            println!("KNOWN-FINDING: property={} key={} occurrences={} {}", self.id, k, n, text);
        }
        let viol = self.viol_total.load(Ordering::Relaxed);
        if self.samples.lock().unwrap().is_empty() && !self.replay_mode {
            if viol > 0 {
                // e.g. a change that makes the exploration vacuous in one dimension: the violations stand
                self.samples.lock().unwrap().push(json!({"note": "no regular sample was recorded in this run; see the violation replay files", "first_violation_file": self.viol_files.lock().unwrap().first().cloned()}));
            } else {
                eprintln!("MACHINERY: the check recorded no sample case (evidence would be invalid)");
                return 3;
            }
        }
        let mut cov = Map::new();
        cov.insert("evaluations".into(), json!(self.evals.load(Ordering::Relaxed)));
        cov.insert("distinct_nontrivial".into(), json!(self.nontrivial.load(Ordering::Relaxed)));
        cov.insert("rule".into(), json!(self.rule.lock().unwrap().clone()));
        cov.insert("samples".into(), json!(self.samples.lock().unwrap().clone()));
        cov.insert("exhaustive".into(), json!(true));
        cov.insert("alphabets".into(), Value::Object(self.alphabets.lock().unwrap().clone()));
        cov.insert("counters".into(), json!(self.counters.lock().unwrap().clone()));
        cov.insert("observed_worst_margins".into(), json!(self.margins.lock().unwrap().clone()));
        for (k, v) in self.extra.lock().unwrap().iter() {
            cov.insert(k.clone(), v.clone());
        }
        let doc = json!({
            "property_id": self.id,
            "tier": self.tier.name(),
            "seed": self.seed,
            "level": self.level,
            "coverage": Value::Object(cov),
            "assumptions": self.assumptions.lock().unwrap().clone(),
            "wall_s": (wall * 1000.0).round() / 1000.0,
            "violations": viol,
            "known_findings_hit": self.known_hits.lock().unwrap().clone(),
            "repo_head": repo_head(),
        });
        let path = format!("{}/evidence/{}.json", verif_dir(), self.id);
        let _ = std::fs::create_dir_all(format!("{}/evidence", verif_dir()));
        std::fs::write(&path, serde_json::to_string_pretty(&doc).unwrap() + "\n").expect("write evidence");
        println!(
            "{} {}: evaluations={} distinct_nontrivial={} violations={} wall={:.1}s",
            self.id,
            self.tier.name(),
            self.evals.load(Ordering::Relaxed),
            self.nontrivial.load(Ordering::Relaxed),
            viol,
            wall
        );
        for (k, v) in self.margins.lock().unwrap().iter() {
            println!("  margin {} = {}", k, v);
        }
        for (k, v) in self.counters.lock().unwrap().iter() {
            println!("  counter {} = {}", k, v);
        }
        if viol > 0 {
            1
        } else {
            0
        }
    }
}

fn sanitize(s: &str) -> String {
    s.chars().map(|c| if c.is_ascii_alphanumeric() { c } else { '_' }).collect()
}

fn repo_head() -> String {
    std::process::Command::new("git")
        .args(["-C", &std::env::var("IPT_REPO_DIR").unwrap_or_else(|_| "/repo".to_string()), "rev-parse", "--short", "HEAD"])
        .output()
        .ok()
        .map(|o| String::from_utf8_lossy(&o.stdout).trim().to_string())
        .unwrap_or_default()
}

/// KNOWN_FINDINGS.txt: `known: property=<id> key=<key-prefix> <text>`; `fixed:` lines suppress nothing.
pub fn load_known(id: &str) -> Vec<Known> {
    let mut out = vec![];
    if let Ok(s) = std::fs::read_to_string(std::env::var("IPT_KNOWN_FILE").unwrap_or_else(|_| format!("{}/KNOWN_FINDINGS.txt", verif_dir()))) {
        for line in s.lines() {
            let line = line.trim();
            if let Some(rest) = line.strip_prefix("known:") {
                let mut prop = String::new();
                let mut key = String::new();
                let mut text = vec![];
                for tok in rest.split_whitespace() {
                    if let Some(p) = tok.strip_prefix("property=") {
                        prop = p.to_string();
                    } else if let Some(k) = tok.strip_prefix("key=") {
                        key = k.to_string();
                    } else {
                        text.push(tok);
                    }
                }
                if prop == id && !key.is_empty() {
                    out.push(Known { property: prop, key, text: text.join(" ") });
                }
            }
        }
    }
    out
}

// ---------------------------------------------------------------------------------------------
// library calls: a panic inside the library is a violation of whatever property is being checked
// (reported with its input), never a machinery failure

thread_local! { pub static LIB_PANIC: std::cell::RefCell<Option<(Value, String)>> = std::cell::RefCell::new(None); }

pub fn site_of(loc: Location) -> Site {
    Site::new(f64::from(loc.coords.latitude), f64::from(loc.coords.longitude), f64::from(loc.coords.elevation), f64::from(loc.gmt))
}

/// `prayer_times_dt` with panic attribution
pub fn pt(p: &Params, loc: Location, date: NaiveDate, w: Option<Weather>) -> R {
    match std::panic::catch_unwind(std::panic::AssertUnwindSafe(|| prayer_times_dt(p, loc, date, w))) {
        Ok(r) => {
            // every oracle indexes the seven entries: a result without them is a violation of every
            // property ("exactly seven entries"), attributed to its input like a panic
            if r.len() != 7 || SEQ7.iter().any(|k| !r.contains_key(k)) {
                let case = PtCase::new(p, site_of(loc), date).with_weather(w.map(|w| (f64::from(w.pressure), f64::from(w.temperature))));
                LIB_PANIC.with(|l| *l.borrow_mut() = Some((case.to_value(), format!("the result has {} entries instead of the seven prayers: {:?}", r.len(), r.keys().collect::<Vec<_>>()))));
                std::panic::panic_any("malformed result");
            }
            r
        }
        Err(e) => {
            let case = PtCase::new(p, site_of(loc), date).with_weather(w.map(|w| (f64::from(w.pressure), f64::from(w.temperature))));
            LIB_PANIC.with(|l| *l.borrow_mut() = Some((case.to_value(), crate::c07::take_panic_msg())));
            std::panic::resume_unwind(e)
        }
    }
}
/// any other library call with panic attribution; `case` is only evaluated on a panic
pub fn lib<T>(case: impl FnOnce() -> Value, f: impl FnOnce() -> T) -> T {
    match std::panic::catch_unwind(std::panic::AssertUnwindSafe(f)) {
        Ok(r) => r,
        Err(e) => {
            LIB_PANIC.with(|l| *l.borrow_mut() = Some((case(), crate::c07::take_panic_msg())));
            std::panic::resume_unwind(e)
        }
    }
}

// ---------------------------------------------------------------------------------------------
// parallel job runner

/// Run `f(job, &mut Local)` for every job on `threads` OS threads (work stealing by atomic index).
pub fn par_jobs<J: Sync, F: Fn(&J, &mut Local) + Sync>(ctx: &Ctx, jobs: &[J], f: F) {
    let threads = std::thread::available_parallelism().map(|n| n.get()).unwrap_or(4).min(jobs.len().max(1));
    let next = AtomicUsize::new(0);
    std::thread::scope(|s| {
        for _ in 0..threads {
            s.spawn(|| loop {
                let i = next.fetch_add(1, Ordering::Relaxed);
                if i >= jobs.len() {
                    break;
                }
                let mut l = Local::default();
                let r = std::panic::catch_unwind(std::panic::AssertUnwindSafe(|| f(&jobs[i], &mut l)));
                if let Err(e) = r {
                    match LIB_PANIC.with(|p| p.borrow_mut().take()) {
                        Some((case, msg)) => {
                            // the library panicked: a violation with its input; the rest of this job is skipped
                            ctx.violation("library_panic_or_malformed_result", &case.to_string(), case, json!({"what": msg, "note": "the remaining cases of this job were skipped"}));
                        }
                        None => std::panic::resume_unwind(e), // harness bug: machinery failure
                    }
                }
                ctx.merge(l);
            });
        }
    });
}

// ---------------------------------------------------------------------------------------------
// inputs

#[derive(Clone, Copy, Debug, Serialize, Deserialize, PartialEq)]
pub struct Site {
    pub lat: f64,
    pub lon: f64,
    pub elev: f64,
    pub gmt: f64,
}
impl Site {
    pub fn new(lat: f64, lon: f64, elev: f64, gmt: f64) -> Site {
        Site { lat, lon, elev, gmt }
    }
    pub fn loc(&self) -> Location {
        Location {
            coords: Coordinates::new(
                Latitude::try_from(self.lat).expect("lat"),
                Longitude::try_from(self.lon).expect("lon"),
                Elevation::try_from(self.elev).expect("elev"),
            ),
            gmt: Gmt::try_from(self.gmt).expect("gmt"),
        }
    }
    pub fn key(&self) -> String {
        format!("lat{}_lon{}_el{}_gmt{}", self.lat, self.lon, self.elev, self.gmt)
    }
}


/// sites OFF the round-number lattices used elsewhere: fractional latitudes, longitudes and
/// elevations, quarter- and half-hour zones that do not match the longitude, zone offsets with seconds. A change that only
/// shows between lattice points (a truncation, a band limit, a term that vanishes at round values)
/// is exercised here. `max_lat`: largest |latitude| the caller's property admits.
pub fn off_lattice_sites(quick: bool, max_lat: f64) -> Vec<Site> {
    let all = [
        Site::new(47.3137, 8.5417, 408.3, 1.0),
        // zone offsets that are not a whole number of minutes (local mean time of the meridian, arbitrary reals)
        Site::new(21.4225, 39.8262, 277.0, 39.8262 / 15.0),
        Site::new(-52.8, -68.3113, 123.4, -3.0),
        Site::new(40.7128, -74.006, 10.0, -4.93389),
        Site::new(27.7172, 85.324, 1400.0, 5.75),
        Site::new(-33.8688, 151.2093, 58.0, 10.0),
        Site::new(59.437, 24.7536, 9.0, 2.0),
        Site::new(5.3712, 100.2704, 7.1, 8.0),
        Site::new(-0.1807, -78.4678, 2850.0, -5.0),
        Site::new(21.4225, 39.8262, 277.0, 3.0),
        Site::new(-17.7863, -63.1812, 416.5, -4.0),
        Site::new(35.6892, 51.389, 1189.0, 3.5),
        Site::new(64.1466, -21.9426, 15.0, 0.0),
        Site::new(-54.8019, -68.303, 23.0, -3.0),
        Site::new(69.6492, 18.9553, 10.0, 1.0),
        Site::new(12.9716, 77.5946, 920.0, 5.5),
    ];
    let n = if quick { 8 } else { all.len() };
    all.iter().cloned().filter(|s| s.lat.abs() <= max_lat).take(n).collect()
}


// ---------------------------------------------------------------------------------------------
// frontier refinement: where a lattice cannot reach (a decision that flips between two adjacent
// floating-point values), bisect down to the two adjacent f64s and enumerate their neighbourhood

/// order-preserving map of the finite f64s onto i64 (and back)
pub fn f_ord(x: f64) -> i64 {
    let b = x.to_bits() as i64;
    b ^ ((((b >> 63) as u64) >> 1) as i64)
}
pub fn f_from_ord(o: i64) -> f64 {
    f64::from_bits((o ^ ((((o >> 63) as u64) >> 1) as i64)) as u64)
}
/// `pred(lo) != pred(hi)` required (else None). Returns adjacent f64s (a, b), a < b, with pred(a) == pred(lo)
/// and pred(b) == pred(hi), and every value probed on the way (at most 64 + 2).
pub fn bisect_flip(lo: f64, hi: f64, mut pred: impl FnMut(f64) -> bool) -> Option<(f64, f64, Vec<f64>)> {
    let (mut a, mut b) = (f_ord(lo), f_ord(hi));
    let pa = pred(lo);
    if pa == pred(hi) || a >= b {
        return None;
    }
    let mut seen = vec![lo, hi];
    while b - a > 1 {
        let m = a + (b - a) / 2;
        let x = f_from_ord(m);
        seen.push(x);
        if pred(x) == pa {
            a = m;
        } else {
            b = m;
        }
    }
    Some((f_from_ord(a), f_from_ord(b), seen))
}
/// the values `x` stepped by -n..=n units in the last place
pub fn ulp_neighbourhood(x: f64, n: i64) -> Vec<f64> {
    (-n..=n).map(|k| f_from_ord(f_ord(x) + k)).collect()
}

/// Twilight-angle frontier of one (site, date): the Fajr (or Isha) angle in [9, 21] at which the
/// conventional time stops existing, located to adjacent f64s; returns the parameter sets to judge:
/// every bisection probe plus +-8 ulp around both sides of the flip, plus a geometric approach
/// (flip - 10^-k degrees, k = 1..=12). None when the event exists for the whole angle range (or for none of it).
pub fn angle_frontier(site: Site, date: NaiveDate, which: Prayer) -> Option<Vec<Params>> {
    let make = |a: f64| {
        let mut p = params_conv(Method::Mwl);
        p.angles.insert(which, a);
        p
    };
    let (a_ok, a_err, seen) = bisect_flip(9.0, 21.0, |a| pt(&make(a), site.loc(), date, None).get(&which).map(|x| x.is_ok()).unwrap_or(false))?;
    let mut v: Vec<f64> = seen;
    v.extend(ulp_neighbourhood(a_ok, 8));
    v.extend(ulp_neighbourhood(a_err, 8));
    for k in 1..=12 {
        v.push(a_ok - 10f64.powi(-k));
    }
    v.retain(|a| (9.0..=21.0).contains(a));
    Some(v.into_iter().map(make).collect())
}
/// sites and dates on which a twilight frontier exists inside [9, 21] degrees (high-latitude summer)
pub fn angle_frontier_cases(quick: bool) -> Vec<(Site, NaiveDate)> {
    let sites = [Site::new(48.6, 25.0, 0.0, 2.0), Site::new(52.52, 13.4, 34.0, 1.0), Site::new(56.3, -5.0, 0.0, 1.0), Site::new(58.97, 5.73, 0.0, 1.0), Site::new(-53.16, -70.9, 0.0, -3.0), Site::new(60.0, 25.0, 0.0, 2.0), Site::new(-58.2, -26.4, 0.0, -2.0)];
    let mut v = vec![];
    for (i, s) in sites.iter().enumerate() {
        if quick && i % 2 == 1 {
            continue;
        }
        for y in if quick { vec![2024] } else { vec![1600, 2024, 2399] } {
            let mut d = ymd(y, 1, 1 + (i as u32 % 3));
            while d.year() == y {
                v.push((*s, d));
                d = d + chrono::Duration::days(if quick { 5 } else { 2 });
            }
        }
    }
    v
}

pub fn ymd(y: i32, m: u32, d: u32) -> NaiveDate {
    NaiveDate::from_ymd_opt(y, m, d).unwrap()
}

/// every date of [y0, y1]
pub fn dates_years(y0: i32, y1: i32) -> Vec<NaiveDate> {
    let mut v = vec![];
    let mut d = ymd(y0, 1, 1);
    let end = ymd(y1, 12, 31);
    while d <= end {
        v.push(d);
        d = d.succ_opt().unwrap();
    }
    v
}
pub fn d_all() -> Vec<NaiveDate> {
    dates_years(1600, 2399)
}
pub fn dates_of_years(years: &[i32]) -> Vec<NaiveDate> {
    let mut v = vec![];
    for &y in years {
        v.extend(dates_years(y, y));
    }
    v
}
pub const YEARS6: [i32; 6] = [1600, 1900, 2000, 2023, 2024, 2399];

/// D_seam: for every year Jan 1-2, Feb 27-Mar 2, Mar 17-25, Jun 19-23, Sep 20-25, Dec 19-23, Dec 30-31
pub fn d_seam(y0: i32, y1: i32) -> Vec<NaiveDate> {
    let mut v = vec![];
    for y in y0..=y1 {
        let mut span = |a: NaiveDate, b: NaiveDate| {
            let mut d = a;
            while d <= b {
                v.push(d);
                d = d.succ_opt().unwrap();
            }
        };
        span(ymd(y, 1, 1), ymd(y, 1, 2));
        span(ymd(y, 2, 27), ymd(y, 3, 2));
        span(ymd(y, 3, 17), ymd(y, 3, 25));
        span(ymd(y, 6, 19), ymd(y, 6, 23));
        span(ymd(y, 9, 20), ymd(y, 9, 25));
        span(ymd(y, 12, 19), ymd(y, 12, 23));
        span(ymd(y, 12, 30), ymd(y, 12, 31));
    }
    v
}

/// ZONES(dmax): longitudes every `step` degrees plus four special ones, GMT = round(lon/15)+delta
/// for delta in `deltas`, clipped to [-12,12] (duplicates removed).
pub fn zones(step: f64, deltas: &[f64]) -> Vec<(f64, f64)> {
    let mut lons = vec![];
    let mut x = -180.0;
    while x <= 180.0 + 1e-9 {
        lons.push(x);
        x += step;
    }
    lons.extend([-77.2086, 7.5, 39.8233, 151.2]);
    let mut out: Vec<(f64, f64)> = vec![];
    for lon in lons {
        for d in deltas {
            let g = ((lon / 15.0f64).round() + d).clamp(-12.0, 12.0);
            if !out.iter().any(|(l, gg)| *l == lon && *gg == g) {
                out.push((lon, g));
            }
        }
    }
    out
}

/// a small representative zone set: (lon, gmt)
pub fn zones_small() -> Vec<(f64, f64)> {
    vec![(-180.0, -12.0), (-77.2086, -5.0), (0.0, 0.0), (39.8233, 3.0), (82.5, 5.5), (151.2, 10.0), (180.0, 12.0)]
}

pub const METHODS9: [Method; 9] = [
    Method::None,
    Method::Egyptian,
    Method::Egypt,
    Method::Shafi,
    Method::Hanafi,
    Method::Isna,
    Method::Mwl,
    Method::UmmAlQurra,
    Method::FixedIsha,
];
pub const NAMED8: [Method; 8] = [
    Method::Egyptian,
    Method::Egypt,
    Method::Shafi,
    Method::Hanafi,
    Method::Isna,
    Method::Mwl,
    Method::UmmAlQurra,
    Method::FixedIsha,
];
pub const ANGLE6: [Method; 6] =
    [Method::Egyptian, Method::Egypt, Method::Shafi, Method::Hanafi, Method::Isna, Method::Mwl];

pub fn lat_of(x: f64) -> Latitude {
    Latitude::try_from(x).unwrap()
}

/// the 14 non-None policies, nearest-latitude ones instantiated with `sub`
pub fn policies14(sub: f64) -> Vec<ExtremeLatitudeMethod> {
    use ExtremeLatitudeMethod::*;
    vec![
        AngleBased,
        NearestLatitudeAllPrayersAlways(lat_of(sub)),
        NearestLatitudeFajrIshaAlways(lat_of(sub)),
        NearestLatitudeFajrIshaInvalid(lat_of(sub)),
        NearestGoodDayAllPrayersAlways,
        NearestGoodDayFajrIshaInvalid,
        SeventhOfNightFajrIshaAlways,
        SeventhOfNightFajrIshaInvalid,
        SeventhOfDayFajrIshaAlways,
        SeventhOfDayFajrIshaInvalid,
        HalfOfNightFajrIshaAlways,
        HalfOfNightFajrIshaInvalid,
        MinutesFromMaghribFajrIshaAlways,
        MinutesFromMaghribFajrIshaInvalid,
    ]
}

pub fn params(method: Method, policy: ExtremeLatitudeMethod, rounding: RoundSeconds) -> Params {
    let mut p = Params::new(method);
    p.extreme_latitude_method = policy;
    p.round_seconds = rounding;
    p
}
/// conventional, unrounded parameters of a method
pub fn params_conv(method: Method) -> Params {
    params(method, ExtremeLatitudeMethod::None, RoundSeconds::None)
}

pub fn weather(p: f64, t: f64) -> Weather {
    Weather { pressure: Pressure::try_from(p).unwrap(), temperature: Temperature::try_from(t).unwrap() }
}

// ---------------------------------------------------------------------------------------------
// time observation

pub fn secs(r: &R, p: Prayer) -> Option<i64> {
    r.get(&p).and_then(|x| x.ok()).map(|t| t.time.num_seconds_from_midnight() as i64)
}
pub fn flag(r: &R, p: Prayer) -> Option<bool> {
    r.get(&p).and_then(|x| x.ok()).map(|t| t.extreme)
}
/// cyclic difference into (-43200, 43200]
pub fn cyc(mut d: i64) -> i64 {
    d %= 86400;
    if d <= -43200 {
        d += 86400;
    }
    if d > 43200 {
        d -= 86400;
    }
    d
}
/// signed offset (seconds) of prayer p from Dhuhr, cyclic
pub fn off(r: &R, p: Prayer) -> Option<i64> {
    let d = secs(r, Prayer::Dhuhr)?;
    secs(r, p).map(|s| cyc(s - d))
}

pub fn fmt_r(r: &R) -> Value {
    let mut m = Map::new();
    for (k, v) in r {
        m.insert(
            format!("{:?}", k),
            match v {
                Ok(t) => json!(format!("{}{}", t.time, if t.extreme { " (extreme)" } else { "" })),
                Err(_) => json!("Invalid"),
            },
        );
    }
    Value::Object(m)
}

/// The generic replayable case of the prayer-time properties.
#[derive(Clone, Debug, Serialize, Deserialize)]
pub struct PtCase {
    pub params: Params,
    pub site: Site,
    pub date: NaiveDate,
    #[serde(default)]
    pub weather: Option<(f64, f64)>,
    #[serde(default)]
    pub extra: Value,
    /// exact bit patterns of every real-valued input (decimal JSON text is not guaranteed to read back
    /// to the same f64 with this JSON library; a frontier case depends on the last bit)
    #[serde(default)]
    pub bits: Value,
}
impl PtCase {
    /// restore the exact inputs recorded by `to_value`
    pub fn fix(mut self) -> PtCase {
        let b = self.bits.clone();
        let get = |v: &Value| v.as_str().and_then(|x| x.parse::<u64>().ok()).map(f64::from_bits);
        for (name, map) in [("angles", &mut self.params.angles), ("intervals", &mut self.params.intervals), ("minutes", &mut self.params.minutes)] {
            for k in SEQ7 {
                if let Some(x) = get(&b[name][format!("{:?}", k)]) {
                    map.insert(k, x);
                }
            }
        }
        if let (Some(a), Some(o), Some(e), Some(g)) = (get(&b["site"][0]), get(&b["site"][1]), get(&b["site"][2]), get(&b["site"][3])) {
            self.site = Site::new(a, o, e, g);
        }
        if let (Some(p), Some(t)) = (get(&b["weather"][0]), get(&b["weather"][1])) {
            self.weather = Some((p, t));
        }
        self
    }
    fn with_bits(&self) -> PtCase {
        let mut c = self.clone();
        let m = |h: &HashMap<Prayer, f64>| Value::Object(h.iter().map(|(k, v)| (format!("{:?}", k), json!(v.to_bits().to_string()))).collect());
        c.bits = json!({"angles": m(&self.params.angles), "intervals": m(&self.params.intervals), "minutes": m(&self.params.minutes),
            "site": [self.site.lat.to_bits().to_string(), self.site.lon.to_bits().to_string(), self.site.elev.to_bits().to_string(), self.site.gmt.to_bits().to_string()],
            "weather": self.weather.map(|(p, t)| json!([p.to_bits().to_string(), t.to_bits().to_string()]))});
        c
    }
    pub fn new(params: &Params, site: Site, date: NaiveDate) -> PtCase {
        PtCase { params: params.clone(), site, date, weather: None, extra: Value::Null, bits: Value::Null }
    }
    pub fn with_extra(mut self, v: Value) -> PtCase {
        self.extra = v;
        self
    }
    pub fn with_weather(mut self, w: Option<(f64, f64)>) -> PtCase {
        self.weather = w;
        self
    }
    pub fn weather(&self) -> Option<Weather> {
        self.weather.map(|(p, t)| weather(p, t))
    }
    pub fn run(&self) -> R {
        prayer_times_dt(&self.params, self.site.loc(), self.date, self.weather())
    }
    pub fn to_value(&self) -> Value {
        serde_json::to_value(self.with_bits()).unwrap()
    }
    pub fn key(&self) -> String {
        format!("{}_{}_{}", self.site.key(), self.date, params_key(&self.params))
    }
}

pub fn params_key(p: &Params) -> String {
    use Prayer::*;
    format!(
        "{:?}_{:?}_{:?}_a{}-{}-{}_i{}-{}-{}_m{}",
        p.extreme_latitude_method,
        p.round_seconds,
        p.asr_shadow_ratio,
        p.angles[&Fajr],
        p.angles[&Isha],
        p.angles[&Imsaak],
        p.intervals[&Fajr],
        p.intervals[&Isha],
        p.intervals[&Imsaak],
        SEQ7.iter().map(|k| p.minutes[k].to_string()).collect::<Vec<_>>().join(",")
    )
    .replace(' ', "")
}

pub fn date_json(d: NaiveDate) -> Value {
    json!(format!("{:04}-{:02}-{:02}", d.year(), d.month(), d.day()))
}
