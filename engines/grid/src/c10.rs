//! C10 Nearest-latitude and portion-of-night fallbacks follow their stated formulas.
use crate::common::*;
use chrono::NaiveDate;
use islamic_prayer_times::*;
use serde_json::{json, Value};

pub const TOL_S: i64 = 3;

fn near(a: i64, b: i64) -> bool {
    cyc(a - b).abs() <= TOL_S
}

pub fn judge(ctx: &Ctx, l: &mut Local, p: &Params, site: Site, date: NaiveDate) {
    judge_w(ctx, l, p, site, date, Option::None)
}
/// `w`: weather supplied by the caller; the substitute computation must be made under the same weather
pub fn judge_w(ctx: &Ctx, l: &mut Local, p: &Params, site: Site, date: NaiveDate, w: Option<(f64, f64)>) {
    let wx = w.map(|(a, b)| weather(a, b));
    use ExtremeLatitudeMethod::*;
    use Prayer::*;
    let pol = p.extreme_latitude_method;
    let mut p0 = p.clone();
    p0.extreme_latitude_method = None;
    let r0 = pt(&p0, site.loc(), date, wx);
    let r = pt(p, site.loc(), date, wx);
    l.evals += 2;
    let case = || PtCase::new(p, site, date).with_weather(w);
    let k = |pr: Prayer| format!("{:?}_{}", pr, case().key());
    let (Some(s0), Some(m0), Some(d0)) = (secs(&r0, Shurooq), secs(&r0, Maghrib), secs(&r0, Dhuhr)) else {
        return; // |lat| <= 60: cannot happen; C02 reports it
    };
    let day = cyc(m0 - d0) - cyc(s0 - d0);
    let night = 86400 - day;
    let fi = p.intervals[&Fajr];
    let ii = p.intervals[&Isha];
    // what the policies see when they decide what is missing: the conventional values, where an
    // interval-defined Fajr/Isha already is "Shurooq - interval" / "Maghrib + interval"
    let has_int = fi != 0.0 || ii != 0.0;
    let mut p_ang = p0.clone();
    p_ang.intervals.insert(Fajr, 0.0);
    p_ang.intervals.insert(Isha, 0.0);
    let r_ang = r0.clone();
    let any_missing = SIX.iter().any(|pr| r_ang[pr].is_err());
    // minutes-from-maghrib-invalid consumes the intervals itself (no separate interval step): it looks
    // at the angle-based values
    let r_raw = if has_int && pol == MinutesFromMaghribFajrIshaInvalid { l.evals += 1; pt(&p_ang, site.loc(), date, wx) } else { r0.clone() };
    let mut engaged = false;
    let mut expect = |pr: Prayer, want: Option<f64>, what: &str, l: &mut Local| {
        let Some(w) = want else { return };
        engaged = true;
        let w = w.round() as i64;
        match secs(&r, pr) {
            Some(g) if near(g, w) && flag(&r, pr) == Some(true) => {
                l.margin("formula_error_s", cyc(g - w) as f64);
            }
            _ => {
                ctx.violation(what, &k(pr), case().to_value(), json!({"prayer": format!("{:?}", pr), "policy": format!("{:?}", pol), "expected_seconds_of_day": w.rem_euclid(86400), "expected_flagged": true, "conventional": fmt_r(&r0), "with_policy": fmt_r(&r)}));
            }
        }
    };
    match pol {
        NearestLatitudeAllPrayersAlways(sub) | NearestLatitudeFajrIshaAlways(sub) | NearestLatitudeFajrIshaInvalid(sub) => {
            let sub = f64::from(sub);
            let sub_site = Site::new(sub, site.lon, site.elev, site.gmt);
            let rs = pt(&p0, sub_site.loc(), date, wx);
            l.evals += 1;
            let rs_ang = if has_int { l.evals += 1; pt(&p_ang, sub_site.loc(), date, wx) } else { rs.clone() };
            let all = matches!(pol, NearestLatitudeAllPrayersAlways(_));
            let inv = matches!(pol, NearestLatitudeFajrIshaInvalid(_));
            for pr in SIX {
                let applies = if all { true } else { matches!(pr, Fajr | Isha) && (!inv || r_ang[&pr].is_err()) };
                // a Fajr/Isha is only replaced when the substitute latitude has an angle-based one
                if !applies || (matches!(pr, Fajr | Isha) && rs_ang[&pr].is_err()) {
                    continue;
                }
                // Fajr/Isha variants: an interval-defined Fajr/Isha keeps "own Shurooq/Maghrib -/+ interval"
                let interval_defined = (pr == Fajr && fi != 0.0) || (pr == Isha && ii != 0.0);
                let want = if interval_defined && !all {
                    Some(if pr == Fajr { s0 as f64 - fi * 60.0 } else { m0 as f64 + ii * 60.0 })
                } else {
                    secs(&rs, pr).map(|x| x as f64)
                };
                if pr == Dhuhr {
                    // Dhuhr keeps its own value (it only depends on longitude) but is flagged
                    expect(pr, Some(d0 as f64), "nearest_latitude_all_prayers", l);
                } else {
                    expect(pr, want, if all { "nearest_latitude_all_prayers" } else { "nearest_latitude_fajr_isha" }, l);
                }
            }
        }
        SeventhOfNightFajrIshaAlways | SeventhOfNightFajrIshaInvalid | SeventhOfDayFajrIshaAlways | SeventhOfDayFajrIshaInvalid => {
            let portion = if matches!(pol, SeventhOfNightFajrIshaAlways | SeventhOfNightFajrIshaInvalid) { night as f64 / 7.0 } else { day as f64 / 7.0 };
            let inv = matches!(pol, SeventhOfNightFajrIshaInvalid | SeventhOfDayFajrIshaInvalid);
            if !inv || r_ang[&Fajr].is_err() {
                expect(Fajr, Some(if fi != 0.0 { s0 as f64 - fi * 60.0 } else { s0 as f64 - portion }), "seventh_formula", l);
            }
            if !inv || r_ang[&Isha].is_err() {
                expect(Isha, Some(if ii != 0.0 { m0 as f64 + ii * 60.0 } else { m0 as f64 + portion }), "seventh_formula", l);
            }
        }
        AngleBased => {
            if any_missing {
                let f = if fi != 0.0 { s0 as f64 - fi * 60.0 } else { s0 as f64 - p.angles[&Fajr] / 60.0 * night as f64 };
                let i = if ii != 0.0 { m0 as f64 + ii * 60.0 } else { m0 as f64 + p.angles[&Isha] / 60.0 * night as f64 };
                expect(Fajr, Some(f), "angle_based_formula", l);
                expect(Isha, Some(i), "angle_based_formula", l);
            }
        }
        MinutesFromMaghribFajrIshaAlways => {
            expect(Fajr, Some(s0 as f64 - fi * 60.0), "minutes_formula", l);
            expect(Isha, Some(m0 as f64 + ii * 60.0), "minutes_formula", l);
        }
        MinutesFromMaghribFajrIshaInvalid => {
            if r_raw[&Fajr].is_err() {
                expect(Fajr, Some(s0 as f64 - fi * 60.0), "minutes_formula", l);
            }
            if r_raw[&Isha].is_err() {
                expect(Isha, Some(m0 as f64 + ii * 60.0), "minutes_formula", l);
            }
        }
        _ => {}
    }
    // what the policy is not supposed to take: under the Fajr/Isha-restricted policies the other four
    // times, and under the 'invalid' variants every angle-defined Fajr/Isha that exists, stay as they are
    let restricted = !matches!(pol, NearestLatitudeAllPrayersAlways(_) | NearestGoodDayAllPrayersAlways);
    let invalid_variant = crate::c08::is_invalid_variant(pol);
    if restricted {
        for pr in [Shurooq, Dhuhr, Asr, Maghrib] {
            if r[&pr] != r0[&pr] {
                ctx.violation("restricted_policy_takes_exactly_fajr_and_isha", &k(pr), case().to_value(), json!({"prayer": format!("{:?}", pr), "policy": format!("{:?}", pol), "conventional": fmt_r(&r0), "with_policy": fmt_r(&r)}));
            }
        }
    }
    if invalid_variant {
        for pr in [Fajr, Isha] {
            let interval_defined = (pr == Fajr && fi != 0.0) || (pr == Isha && ii != 0.0);
            if !interval_defined && r_ang[&pr].is_ok() && r[&pr] != r0[&pr] {
                ctx.violation("invalid_variant_takes_only_what_is_missing", &k(pr), case().to_value(), json!({"prayer": format!("{:?}", pr), "policy": format!("{:?}", pol), "conventional": fmt_r(&r0), "with_policy": fmt_r(&r)}));
            }
        }
    }
    if engaged {
        l.nontrivial += 1;
        if ctx.want_sample() && date.format("%m-%d").to_string() == "06-21" {
            ctx.sample(json!({"site": site, "date": date_json(date), "policy": format!("{:?}", pol), "conventional": fmt_r(&r0), "with_policy": fmt_r(&r)}));
        }
    }
}

pub fn policies(subs: &[f64]) -> Vec<ExtremeLatitudeMethod> {
    use ExtremeLatitudeMethod::*;
    let mut v = vec![];
    for &s in subs {
        v.push(NearestLatitudeAllPrayersAlways(lat_of(s)));
        v.push(NearestLatitudeFajrIshaAlways(lat_of(s)));
        v.push(NearestLatitudeFajrIshaInvalid(lat_of(s)));
    }
    v.extend([SeventhOfNightFajrIshaAlways, SeventhOfNightFajrIshaInvalid, SeventhOfDayFajrIshaAlways, SeventhOfDayFajrIshaInvalid, AngleBased, MinutesFromMaghribFajrIshaAlways, MinutesFromMaghribFajrIshaInvalid]);
    v
}

pub fn explore(ctx: &Ctx) {
    // call sequences from non-initial states (see history.rs)
    if ctx.tier == Tier::Thorough {
        crate::history::explore(ctx, "policy_full", &crate::history::alphabet_policy_full(), 2);
    }
    crate::history::explore(ctx, "policy", &crate::history::alphabet_policy(), 2);
    let quick = ctx.tier == Tier::Quick;
    ctx.rule("every (site, date, method/intervals, policy) enumerated once; non-trivial = the policy's formula applied to at least one of Fajr/Isha (or, for nearest-latitude-all, all six) and was judged");
    ctx.assume("formulas evaluated from the conventional (policy None) Shurooq/Maghrib of the same site/date, whole seconds, tolerance 3 s");
    ctx.assume("a substitute-latitude time that does not exist conventionally at the substitute latitude is not judged");
    ctx.assume("'missing' is decided on the conventional result (policy None), in which an interval-defined Fajr/Isha is already Shurooq - interval / Maghrib + interval");
    ctx.assume("minutes-from-maghrib-invalid is judged with the intervals it consumes (custom Fajr 45 / Isha 90) and with angle methods (interval 0)");
    let lats = [0.0, 30.0, -30.0, 48.5, -48.5, 55.0, -55.0, 60.0, -60.0];
    let zs: Vec<(f64, f64)> = vec![(25.0, 2.0), (-100.0, -6.0)];
    let subs = [-60.0, -30.0, 0.0, 30.0, 48.5, 60.0];
    let pols = policies(&subs);
    let years: Vec<i32> = if quick { vec![2023, 2024] } else { let mut y: Vec<i32> = (1600..2400).step_by(25).collect(); y.extend([2023, 2024, 2399]); y };
    let dates = dates_of_years(&years);
    // parameter sets: 8 named methods + custom intervals on an angle method
    let mut psets: Vec<Params> = NAMED8.iter().map(|m| params_conv(*m)).collect();
    let mut c = params_conv(Method::Mwl);
    c.intervals.insert(Prayer::Fajr, 45.0);
    c.intervals.insert(Prayer::Isha, 90.0);
    psets.push(c);
    let mut jobs = vec![];
    for &lat in &lats {
        for &(lon, gmt) in &zs {
            for ps in &psets {
                jobs.push((Site::new(lat, lon, 0.0, gmt), ps.clone()));
            }
        }
    }
    ctx.alphabet("lats", json!(lats));
    ctx.alphabet("zones", json!(zs));
    ctx.alphabet("substitute_latitudes", json!(subs));
    ctx.alphabet("policies", json!(pols.len()));
    ctx.alphabet("parameter_sets", json!("NAMED8 + Mwl with Fajr interval 45 / Isha interval 90"));
    ctx.alphabet("dates", json!({"count": dates.len()}));
    par_jobs(ctx, &jobs, |(site, ps), l| {
        for &d in &dates {
            for &pol in &pols {
                // the interval-consuming 'invalid' policy is outside the named interval methods (C08 quantifier)
                if pol == ExtremeLatitudeMethod::MinutesFromMaghribFajrIshaInvalid && crate::c08::interval_method(ps) && ps.angles[&Prayer::Isha] == 0.0 {
                    continue;
                }
                let mut p = ps.clone();
                p.extreme_latitude_method = pol;
                judge(ctx, l, &p, *site, d);
            }
        }
    });
    // weather supplied by the caller (the range corners, where refraction moves a rise/set by several seconds)
    let wjobs: Vec<(Site, f64, (f64, f64))> = {
        let mut v = vec![];
        for &lat in &[30.0, 55.0, -48.5] {
            for &sub in &[60.0, -60.0, 48.5] {
                for w in [(1050.0, -90.0), (100.0, 57.0), (600.0, 20.0), (1047.0, -68.5)] {
                    v.push((Site::new(lat, 25.0, 0.0, 2.0), sub, w));
                }
            }
        }
        v
    };
    let wdates = dates_of_years(if quick { &[2023] } else { &[1999, 2023, 2399] });
    ctx.alphabet("caller_weather", json!({"jobs_site_x_substitute_x_weather": wjobs.len(), "dates": wdates.len(), "policies": "the three nearest-latitude variants", "methods": ["Isna", "UmmAlQurra"]}));
    par_jobs(ctx, &wjobs, |(site, sub, w), l| {
        use ExtremeLatitudeMethod::*;
        for m in [Method::Isna, Method::UmmAlQurra] {
            for pol in [NearestLatitudeAllPrayersAlways(lat_of(*sub)), NearestLatitudeFajrIshaAlways(lat_of(*sub)), NearestLatitudeFajrIshaInvalid(lat_of(*sub))] {
                let p = params(m, pol, RoundSeconds::None);
                for &d in &wdates {
                    judge_w(ctx, l, &p, *site, d, Some(*w));
                }
            }
        }
    });
}

pub fn replay(ctx: &Ctx, _clause: &str, case: &Value) {
    let c: PtCase = serde_json::from_value::<PtCase>(case.clone()).map(PtCase::fix).expect("case");
    let mut l = Local::default();
    judge_w(ctx, &mut l, &c.params, c.site, c.date, c.weather);
    println!("  result: {}", fmt_r(&c.run()));
}
