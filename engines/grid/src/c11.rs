//! C11 Rounding follows the selected policy exactly. Exhaustive over every second of the day
//! (and beyond: negative and >= 24 h intermediate hours) by sweeping a fractional minute offset.
use crate::common::*;
use chrono::{NaiveDate, NaiveTime, Timelike};
use islamic_prayer_times::*;
use serde_json::{json, Value};

pub const KMAX: i64 = 90_000;

/// the integer rounding table: (mode, prayer, unrounded time) -> expected time
pub fn table(mode: RoundSeconds, pr: Prayer, t: NaiveTime) -> NaiveTime {
    let (h, m, s) = (t.hour() as i64, t.minute() as i64, t.second() as i64);
    let up = |thr: i64| -> NaiveTime {
        let mut total = h * 60 + m;
        if s >= thr {
            total += 1;
        }
        total = total.rem_euclid(1440);
        NaiveTime::from_hms_opt((total / 60) as u32, (total % 60) as u32, 0).unwrap()
    };
    let drop = || NaiveTime::from_hms_opt(h as u32, m as u32, 0).unwrap();
    match mode {
        RoundSeconds::None => t,
        RoundSeconds::NormalRounding => up(30),
        RoundSeconds::SpecialRounding => {
            if pr == Prayer::Shurooq {
                drop()
            } else {
                up(30)
            }
        }
        RoundSeconds::AggressiveRounding => {
            if pr == Prayer::Shurooq {
                drop()
            } else {
                up(1)
            }
        }
    }
}

#[derive(Clone)]
pub struct Base {
    pub site: Site,
    pub date: NaiveDate,
    pub params: Params,
}

pub fn judge(ctx: &Ctx, l: &mut Local, b: &Base, base_r: &R, key: Prayer, k: i64) {
    judge_at(ctx, l, b, base_r, key, k, 0.0)
}

/// offset = k + frac seconds (frac moves the sub-second phase of every swept instant)
pub fn judge_at(ctx: &Ctx, l: &mut Local, b: &Base, base_r: &R, key: Prayer, k: i64, frac: f64) {
    judge_minutes(ctx, l, b, base_r, key, (k as f64 + frac) / 60.0, k, frac)
}

/// the offset given as the exact f64 number of minutes; `k` = that offset in whole seconds (for the binding
/// of the unrounded output to base time + offset), `frac` != 0 widens that binding to +-2 s
pub fn judge_minutes(ctx: &Ctx, l: &mut Local, b: &Base, base_r: &R, key: Prayer, minutes: f64, k: i64, frac: f64) {
    let mut p = b.params.clone();
    p.round_seconds = RoundSeconds::None;
    p.minutes.insert(key, minutes);
    let p = p;
    let r0 = pt(&p, b.site.loc(), b.date, None);
    l.evals += 1;
    let case = |mode: RoundSeconds| {
        let mut q = p.clone();
        q.round_seconds = mode;
        PtCase::new(&q, b.site, b.date).with_extra(json!({"swept_key": format!("{:?}", key), "offset_seconds": k, "offset_minutes_f64_bits": minutes.to_bits().to_string()}))
    };
    // binding of the unrounded output to true time: base time + k seconds (+-1 s float/truncation)
    for pr in SEQ7 {
        let moved = pr == key || (key == Prayer::Fajr && pr == Prayer::Imsaak);
        match (secs(base_r, pr), secs(&r0, pr)) {
            (Some(a), Some(g)) => {
                let want = if moved { a + k } else { a };
                if cyc(g - want).abs() > if moved { if frac == 0.0 { 1 } else { 2 } } else { 0 } {
                    ctx.violation("unrounded_time_is_base_plus_offset", &format!("{:?}_{}", pr, case(RoundSeconds::None).key()), case(RoundSeconds::None).to_value(), json!({"prayer": format!("{:?}", pr), "base": fmt_r(base_r), "shifted": fmt_r(&r0), "offset_s": k}));
                }
            }
            (None, None) => {}
            _ => {
                ctx.violation("offset_changes_validity", &case(RoundSeconds::None).key(), case(RoundSeconds::None).to_value(), json!({"base": fmt_r(base_r), "shifted": fmt_r(&r0)}));
            }
        }
    }
    for mode in [RoundSeconds::NormalRounding, RoundSeconds::SpecialRounding, RoundSeconds::AggressiveRounding] {
        let mut pm = p.clone();
        pm.round_seconds = mode;
        let r = pt(&pm, b.site.loc(), b.date, None);
        l.evals += 1;
        for pr in SEQ7 {
            match (r0[&pr], r[&pr]) {
                (Ok(a), Ok(g)) => {
                    let want = table(mode, pr, a.time);
                    let mv = cyc(g.time.num_seconds_from_midnight() as i64 - a.time.num_seconds_from_midnight() as i64);
                    if g.time != want || g.extreme != a.extreme || mv.abs() >= 60 {
                        ctx.violation("rounding_table", &format!("{:?}_{}", pr, case(mode).key()), case(mode).to_value(), json!({"prayer": format!("{:?}", pr), "mode": format!("{:?}", mode), "unrounded": a.time.to_string(), "got": g.time.to_string(), "expected": want.to_string(), "flag_unrounded": a.extreme, "flag_rounded": g.extreme}));
                    }
                    if pr == key {
                        let s = a.time.second();
                        if s == 29 || s == 30 || s == 59 || s == 0 || s == 1 {
                            l.count("threshold_seconds_cases", 1);
                        }
                        if a.time.minute() == 59 && g.time.minute() == 0 {
                            l.count("hour_carries", 1);
                        }
                        if a.time.hour() == 23 && g.time.hour() == 0 {
                            l.count("midnight_carries", 1);
                        }
                    }
                }
                (Err(_), Err(_)) => {}
                _ => {
                    ctx.violation("rounding_changes_validity", &case(mode).key(), case(mode).to_value(), json!({"unrounded": fmt_r(&r0), "rounded": fmt_r(&r)}));
                }
            }
        }
    }
    l.nontrivial += 1;
    if ctx.want_sample() && k == 86399 - 17 {
        ctx.sample(json!({"site": b.site, "date": date_json(b.date), "swept_key": format!("{:?}", key), "offset_seconds": k, "unrounded": fmt_r(&r0)}));
    }
}

/// Offsets (exact f64 minutes) around the midnight frontiers of the swept prayer: where its unrounded
/// time flips from 23:59:59 to 00:00:00 because the intermediate hour crosses -24, 0, 24 or 48, located
/// to adjacent f64s by bisection; returned: the bisection probes and +-64 units in the last place on
/// both sides of each flip. (A lattice of whole seconds never lands on "the hour is exactly 24.0" or on
/// "the hour is the smallest negative number".)
pub fn midnight_frontier_minutes(b: &Base, base_r: &R, key: Prayer) -> Vec<f64> {
    let Some(t) = secs(base_r, key) else { return vec![] };
    let mut out = vec![];
    for n in [-1i64, 0, 1, 2] {
        let c = (n * 86400 - t) as f64 / 60.0;
        let after = |x: f64| {
            let mut p = b.params.clone();
            p.round_seconds = RoundSeconds::None;
            p.minutes.insert(key, x);
            secs(&pt(&p, b.site.loc(), b.date, None), key).map(|s| s < 43200).unwrap_or(false)
        };
        if let Some((lo, hi, seen)) = bisect_flip(c - 2.0, c + 2.0, after) {
            out.extend(seen);
            out.extend(ulp_neighbourhood(lo, 64));
            out.extend(ulp_neighbourhood(hi, 64));
        }
    }
    out
}

pub fn bases(tier: Tier) -> Vec<Base> {
    let mut v = vec![Base { site: Site::new(39.0, -77.0, 0.0, -5.0), date: ymd(2023, 2, 6), params: params_conv(Method::Mwl) }];
    // flagged (extreme) times: the flag must survive rounding
    v.push(Base { site: Site::new(55.0, 25.0, 0.0, 2.0), date: ymd(2024, 6, 21), params: params(Method::Egyptian, ExtremeLatitudeMethod::SeventhOfNightFajrIshaAlways, RoundSeconds::None) });
    // Imsaak defined by a (non-integer) interval before Fajr, and Fajr by an interval before Shurooq:
    // the other two Imsaak code paths must round their own unrounded time as well
    let mut pi = params_conv(Method::Egyptian);
    pi.intervals.insert(Prayer::Imsaak, 7.5);
    v.push(Base { site: Site::new(47.4, 8.5, 0.0, 1.0), date: ymd(2031, 10, 19), params: pi });
    if tier == Tier::Thorough {
        let mut pf = params_conv(Method::Mwl);
        pf.intervals.insert(Prayer::Fajr, 81.25);
        pf.intervals.insert(Prayer::Imsaak, 12.25);
        v.push(Base { site: Site::new(-36.8, 174.8, 0.0, 12.0), date: ymd(1987, 5, 6), params: pf });
        // invalid entries stay invalid
        v.push(Base { site: Site::new(70.0, 25.0, 0.0, 2.0), date: ymd(2024, 12, 21), params: params_conv(Method::Isna) });
        v.push(Base { site: Site::new(-33.9, 151.2, 0.0, 10.0), date: ymd(2024, 2, 29), params: params_conv(Method::UmmAlQurra) });
        v.push(Base { site: Site::new(0.0, 180.0, 8848.0, 12.0), date: ymd(2399, 12, 31), params: params_conv(Method::Hanafi) });
    }
    v
}

pub fn explore(ctx: &Ctx) {
    ctx.rule("for each base (site, date, params) and each of the 6 offset keys (Imsaak is observed through the Fajr key), every offset k/60 minutes, k in [-90000, 90000] seconds, is one case: 4 calls (None + 3 rounding modes), all 7 entries judged against the integer rounding table applied to the None-mode h:m:s. All cases are distinct and non-trivial (each puts the swept prayer on a different clock second / carry situation)");
    ctx.assume("oracle reads the unrounded h:m:s from the library's own None mode (sound at float edges: sec >= 30.0 <=> floor(sec) >= 30) and separately binds the None output to base time + offset (+-1 s)");
    let bs = bases(ctx.tier);
    ctx.alphabet("bases", json!(bs.iter().map(|b| json!({"site": b.site, "date": date_json(b.date), "params": params_key(&b.params)})).collect::<Vec<_>>()));
    ctx.alphabet("offset_seconds", json!({"from": -KMAX, "to": KMAX, "step": 1, "plus_minutes": [-1500, 1500]}));
    ctx.alphabet("midnight_frontier", json!("per base and key: the offsets at which the hour crosses -24/0/24/48, bisected to adjacent f64s, +-64 ulp on both sides"));
    ctx.alphabet("keys", json!(["Fajr(+Imsaak)", "Shurooq", "Dhuhr", "Asr", "Maghrib", "Isha"]));
    ctx.alphabet("modes", json!(4));
    let mut jobs = vec![];
    for (bi, _) in bs.iter().enumerate() {
        for key in SIX {
            let mut a = -KMAX;
            while a <= KMAX {
                jobs.push((bi, key, a, (a + 4999).min(KMAX)));
                a += 5000;
            }
        }
    }
    let base_rs: Vec<R> = bs.iter().map(|b| pt(&b.params, b.site.loc(), b.date, None)).collect();
    ctx.alphabet("sub_second_phases", json!({"base_0": [0.0, 0.5], "other_bases": [0.0], "why": "whole-second offsets keep the hidden fractional second of the base time; the half-second sweep moves it across 0.5"}));
    par_jobs(ctx, &jobs, |(bi, key, a, z), l| {
        for k in *a..=*z {
            judge(ctx, l, &bs[*bi], &base_rs[*bi], *key, k);
            if *bi == 0 && (-43200..=43200).contains(&k) {
                judge_at(ctx, l, &bs[*bi], &base_rs[*bi], *key, k, 0.5);
            }
        }
        if *a == -KMAX {
            for k in [-1500 * 60, 1500 * 60] {
                judge(ctx, l, &bs[*bi], &base_rs[*bi], *key, k);
            }
        }
    });
    // offsets of several days: every second within +-90 s of each instant at which the intermediate hour
    // crosses a multiple of 24 (n = -3..=3), and the whole span -3..+3 days at a 61 s stride
    let quick = ctx.tier == Tier::Quick;
    ctx.alphabet("multi_day_offsets", json!({"span_days": [-3, 3], "stride_s": 61, "dense_windows": "+-90 s around base + k = n x 24 h, n = -3..=3"}));
    let mut jobs2 = vec![];
    for (bi, _) in bs.iter().enumerate() {
        if quick && bi == 1 {
            continue;
        }
        for key in SIX {
            jobs2.push((bi, key));
        }
    }
    par_jobs(ctx, &jobs2, |(bi, key), l| {
        let (b, br) = (&bs[*bi], &base_rs[*bi]);
        let mut k: i64 = -3 * 86400;
        while k <= 3 * 86400 {
            if k.abs() > KMAX {
                judge(ctx, l, b, br, *key, k);
            }
            k += 61;
        }
        if let Some(t) = secs(br, *key) {
            for n in -3i64..=3 {
                for k in (n * 86400 - t - 90)..=(n * 86400 - t + 90) {
                    if k.abs() > KMAX {
                        judge(ctx, l, b, br, *key, k);
                    }
                }
            }
        }
        // the midnight frontiers to the last bit
        for x in midnight_frontier_minutes(b, br, *key) {
            judge_minutes(ctx, l, b, br, *key, x, (x * 60.0).round() as i64, 0.5);
            l.count("midnight_frontier_probes", 1);
        }
    });
}

pub fn replay(ctx: &Ctx, _clause: &str, case: &Value) {
    let c: PtCase = serde_json::from_value::<PtCase>(case.clone()).map(PtCase::fix).expect("case");
    let mut l = Local::default();
    let key = SEQ7.into_iter().find(|p| format!("{:?}", p) == c.extra["swept_key"].as_str().unwrap_or("")).unwrap_or(Prayer::Fajr);
    let k = c.extra["offset_seconds"].as_i64().unwrap_or(0);
    let mut bp = c.params.clone();
    bp.minutes.insert(key, 0.0);
    bp.round_seconds = RoundSeconds::None;
    let b = Base { site: c.site, date: c.date, params: bp };
    let base_r = pt(&b.params, b.site.loc(), b.date, None);
    match c.extra["offset_minutes_f64_bits"].as_str().and_then(|x| x.parse::<u64>().ok()) {
        Some(bits) => judge_minutes(ctx, &mut l, &b, &base_r, key, f64::from_bits(bits), k, 0.5),
        None => judge(ctx, &mut l, &b, &base_r, key, k),
    }
    println!("  result: {}", fmt_r(&c.run()));
}
