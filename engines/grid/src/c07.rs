//! C07 Computing prayer times never panics or hangs on valid input.
//! Fault-style enumeration of the crash surface, iterated by the number of deviations from the
//! method defaults (0, then 1, then listed 2-combinations).
use crate::common::*;
use chrono::NaiveDate;
use islamic_prayer_times::*;
use serde_json::{json, Value};
use std::cell::RefCell;
use std::sync::atomic::{AtomicBool, AtomicU64, Ordering};
use std::sync::Mutex;
use std::time::Duration;

pub const HANG_LIMIT_S: f64 = 5.0;

thread_local! { static PANIC_MSG: RefCell<Option<String>> = RefCell::new(None); }
pub static LAST_PANIC: Mutex<Option<String>> = Mutex::new(None);

pub fn install_quiet_hook() {
    std::panic::set_hook(Box::new(|info| {
        let loc = info.location().map(|l| format!("{}:{}", l.file(), l.line())).unwrap_or_default();
        let msg = info.payload().downcast_ref::<&str>().map(|s| s.to_string()).or_else(|| info.payload().downcast_ref::<String>().cloned()).unwrap_or_default();
        PANIC_MSG.with(|m| *m.borrow_mut() = Some(format!("{} at {}", msg, loc)));
        if let Ok(mut g) = LAST_PANIC.lock() {
            *g = Some(format!("{} at {}", msg, loc));
        }
    }));
}
pub fn take_panic_msg() -> String {
    PANIC_MSG.with(|m| m.borrow_mut().take()).unwrap_or_default()
}

#[derive(Clone, Copy, Debug, PartialEq)]
pub enum Dev {
    A0,
    A25,
    IF45,
    II45,
    IM45,
    IAll180,
    IAll0,
    IF180,
    MPlus,
    MMinus,
    MFajrMinus,
    Hanafi,
    W(usize),
}
pub const WCORNERS: [(f64, f64); 4] = [(100.0, -90.0), (100.0, 57.0), (1050.0, -90.0), (1050.0, 57.0)];

pub fn singles() -> Vec<Dev> {
    use Dev::*;
    vec![A0, A25, IF45, II45, IM45, IAll180, IAll0, IF180, MPlus, MMinus, MFajrMinus, Hanafi, W(0), W(1), W(2), W(3)]
}
pub fn pairs() -> Vec<(Dev, Dev)> {
    use Dev::*;
    vec![(A25, IAll180), (A0, MMinus), (IF45, MPlus), (IM45, A25), (IF45, IM45), (II45, Hanafi), (A0, IAll180), (MMinus, IAll180), (IM45, MFajrMinus), (A25, W(0))]
}

pub fn apply(p: &mut Params, w: &mut Option<(f64, f64)>, d: Dev) {
    use Prayer::*;
    match d {
        Dev::A0 => {
            p.angles.insert(Fajr, 0.0);
            p.angles.insert(Isha, 0.0);
            p.angles.insert(Imsaak, 0.0);
        }
        Dev::A25 => {
            p.angles.insert(Fajr, 25.0);
            p.angles.insert(Isha, 25.0);
            p.angles.insert(Imsaak, 25.0);
        }
        Dev::IF45 => {
            p.intervals.insert(Fajr, 45.0);
        }
        Dev::II45 => {
            p.intervals.insert(Isha, 45.0);
        }
        Dev::IM45 => {
            p.intervals.insert(Imsaak, 45.0);
        }
        Dev::IAll180 => {
            for k in [Fajr, Isha, Imsaak] {
                p.intervals.insert(k, 180.0);
            }
        }
        Dev::IAll0 => {
            for k in [Fajr, Isha, Imsaak] {
                p.intervals.insert(k, 0.0);
            }
        }
        Dev::IF180 => {
            p.intervals.insert(Fajr, 180.0);
        }
        Dev::MPlus => {
            for k in SEQ7 {
                p.minutes.insert(k, 1500.0);
            }
        }
        Dev::MMinus => {
            for k in SEQ7 {
                p.minutes.insert(k, -1500.0);
            }
        }
        Dev::MFajrMinus => {
            p.minutes.insert(Fajr, -1499.5);
        }
        Dev::Hanafi => p.asr_shadow_ratio = AsrShadowRatio::Hanafi,
        Dev::W(i) => *w = Some(WCORNERS[i]),
    }
}

pub fn policies27() -> Vec<ExtremeLatitudeMethod> {
    use ExtremeLatitudeMethod::*;
    let mut v = vec![None];
    for sub in [-90.0, -48.5, 0.0, 48.5, 90.0] {
        v.push(NearestLatitudeAllPrayersAlways(lat_of(sub)));
        v.push(NearestLatitudeFajrIshaAlways(lat_of(sub)));
        v.push(NearestLatitudeFajrIshaInvalid(lat_of(sub)));
    }
    v.extend(policies14(48.5).into_iter().filter(|p| !matches!(p, NearestLatitudeAllPrayersAlways(_) | NearestLatitudeFajrIshaAlways(_) | NearestLatitudeFajrIshaInvalid(_))));
    v
}

/// one guarded call; returns whether the result had an invalid or extreme entry
pub fn guarded(ctx: &Ctx, l: &mut Local, slot: &Slot, c: &PtCase) {
    slot.begin(c);
    let res = std::panic::catch_unwind(std::panic::AssertUnwindSafe(|| c.run()));
    slot.end();
    l.evals += 1;
    match res {
        Err(_) => {
            let msg = take_panic_msg();
            ctx.violation("panic", &c.key(), c.to_value(), json!({"panic": msg}));
        }
        Ok(r) => {
            if r.len() != 7 || SEQ7.iter().any(|k| !r.contains_key(k)) {
                ctx.violation("seven_entries", &c.key(), c.to_value(), json!({"result": fmt_r(&r)}));
            }
            if SEQ7.iter().any(|k| r[k].is_err() || flag(&r, *k) == Some(true)) {
                l.nontrivial += 1;
                if ctx.want_sample() && c.site.lat.abs() >= 80.0 {
                    ctx.sample(json!({"case": {"site": c.site, "date": date_json(c.date), "params": params_key(&c.params), "weather": c.weather}, "result": fmt_r(&r)}));
                }
            }
        }
    }
}

/// Watchdog slot of one worker thread: `seq` is odd while a call is in flight.
pub struct Slot {
    seq: AtomicU64,
    case: Mutex<Option<PtCase>>,
}
impl Slot {
    pub fn new() -> Slot {
        Slot { seq: AtomicU64::new(0), case: Mutex::new(None) }
    }
    fn begin(&self, c: &PtCase) {
        *self.case.lock().unwrap() = Some(c.clone());
        self.seq.fetch_add(1, Ordering::SeqCst);
    }
    fn end(&self) {
        self.seq.fetch_add(1, Ordering::SeqCst);
    }
}

pub fn is_ngd(p: ExtremeLatitudeMethod) -> bool {
    matches!(p, ExtremeLatitudeMethod::NearestGoodDayAllPrayersAlways | ExtremeLatitudeMethod::NearestGoodDayFajrIshaInvalid)
}

pub fn explore(ctx: &Ctx) {
    let quick = ctx.tier == Tier::Quick;
    install_quiet_hook();
    ctx.rule("every (site, date, method, policy, rounding, deviation set) tuple enumerated once under catch_unwind and a watchdog; non-trivial = the result contains at least one Invalid or extreme entry (the fallback / error paths were actually exercised)");
    ctx.assume("a call exceeding 5 s (slowest legitimate call measured: 0.23 s) is reported as a hang");
    ctx.assume("deviations from the method defaults are enumerated by count: 0, every single one, then the listed pairs");
    let lats: Vec<f64> = vec![90.0, -90.0, 89.99, -89.99, 80.0, -80.0, 66.56, -66.56, 60.0, -60.0, 48.5, -48.5, 23.44, -23.44, 0.0];
    let zs = [(25.0, 2.0, 8848.0), (-170.0, 12.0, -420.0)];
    let dates: Vec<NaiveDate> = if quick {
        let mut v = vec![];
        let mut d = ymd(2023, 12, 1);
        while d <= ymd(2025, 1, 31) {
            v.push(d);
            d = d + chrono::Days::new(37);
        }
        v
    } else {
        let mut v: Vec<NaiveDate> = dates_of_years(&[2024]).into_iter().step_by(6).collect();
        v.extend(d_seam(1600, 1600));
        v.extend(d_seam(2399, 2399));
        v
    };
    // dates used where a nearest-good-day search cannot succeed (|lat| >= 85): ~33 ms per call
    let dates_polar_ngd: Vec<NaiveDate> = if quick { vec![ymd(2024, 3, 20), ymd(2024, 6, 20), ymd(2024, 12, 21)] } else { dates.iter().cloned().step_by(10).collect() };
    let pols = policies27();
    let roundings = crate::c05::ROUNDINGS;
    let dev_roundings: Vec<RoundSeconds> = if quick { vec![RoundSeconds::None, RoundSeconds::AggressiveRounding] } else { roundings.to_vec() };
    ctx.alphabet("lats", json!(lats));
    ctx.alphabet("zones_lon_gmt_elev", json!(zs));
    ctx.alphabet("dates", json!({"count": dates.len(), "first": date_json(dates[0]), "last": date_json(*dates.last().unwrap()), "polar_nearest_good_day_dates": dates_polar_ngd.len()}));
    ctx.alphabet("methods", json!(9));
    ctx.alphabet("policies", json!({"count": pols.len(), "nearest_latitude_substitutes": [-90, -48.5, 0, 48.5, 90]}));
    ctx.alphabet("roundings", json!({"zero_deviation": 4, "with_deviations": dev_roundings.len()}));
    ctx.alphabet("deviations", json!({"singles": singles().iter().map(|d| format!("{:?}", d)).collect::<Vec<_>>(), "pairs": pairs().iter().map(|d| format!("{:?}", d)).collect::<Vec<_>>()}));

    // jobs = (site, method, policy)
    let mut jobs = vec![];
    for &lat in &lats {
        for (zi, &(lon, gmt, elev)) in zs.iter().enumerate() {
            for m in METHODS9 {
                for &pol in &pols {
                    // the failing polar searches dominate the cost: one zone is enough there
                    if is_ngd(pol) && lat.abs() >= 85.0 && zi > 0 {
                        continue;
                    }
                    jobs.push((Site::new(lat, lon, elev, gmt), m, pol));
                }
            }
        }
    }
    // largest jobs first
    jobs.sort_by_key(|(s, _, p)| if is_ngd(*p) && s.lat.abs() >= 85.0 { 0 } else { 1 });
    let n_threads = std::thread::available_parallelism().map(|n| n.get()).unwrap_or(4);
    let slots: Vec<Slot> = (0..n_threads + 1).map(|_| Slot::new()).collect();
    let next = std::sync::atomic::AtomicUsize::new(0);
    let done = AtomicBool::new(false);
    std::thread::scope(|s| {
        // watchdog: a call whose odd sequence number persists for HANG_LIMIT_S is a hang
        s.spawn(|| {
            let mut seen: Vec<(u64, std::time::Instant)> = slots.iter().map(|_| (0, std::time::Instant::now())).collect();
            while !done.load(Ordering::SeqCst) {
                std::thread::sleep(Duration::from_millis(100));
                for (i, slot) in slots.iter().enumerate() {
                    let q = slot.seq.load(Ordering::SeqCst);
                    if q % 2 == 1 {
                        if seen[i].0 == q {
                            if seen[i].1.elapsed().as_secs_f64() > HANG_LIMIT_S {
                                if let Some(c) = slot.case.lock().unwrap().clone() {
                                    ctx.violation("hang", &c.key(), c.to_value(), json!({"no_result_after_s": HANG_LIMIT_S}));
                                }
                                let code = ctx.finish();
                                std::process::exit(if code == 0 { 1 } else { code });
                            }
                        } else {
                            seen[i] = (q, std::time::Instant::now());
                        }
                    } else {
                        seen[i].0 = 0;
                    }
                }
            }
        });
        let mut hs = vec![];
        for ti in 0..n_threads {
            let slot = &slots[ti];
            let (jobs, next, dates, dates_polar_ngd, dev_roundings) = (&jobs, &next, &dates, &dates_polar_ngd, &dev_roundings);
            hs.push(s.spawn(move || loop {
                let i = next.fetch_add(1, Ordering::Relaxed);
                if i >= jobs.len() {
                    break;
                }
                let (site, m, pol) = jobs[i];
                let slow = is_ngd(pol) && site.lat.abs() >= 85.0;
                let ds: &Vec<NaiveDate> = if slow { dates_polar_ngd } else { dates };
                let mut l = Local::default();
                for &d in ds {
                    // 0 deviations x all roundings
                    for r in roundings {
                        let c = PtCase::new(&params(m, pol, r), site, d);
                        guarded(ctx, &mut l, slot, &c);
                    }
                    // 1 deviation
                    for dev in singles() {
                        if slow && quick && matches!(dev, Dev::W(_)) {
                            continue;
                        }
                        for &r in dev_roundings.iter() {
                            let mut p = params(m, pol, r);
                            let mut w = None;
                            apply(&mut p, &mut w, dev);
                            let c = PtCase::new(&p, site, d).with_weather(w);
                            guarded(ctx, &mut l, slot, &c);
                        }
                    }
                    // listed pairs
                    if !(slow && quick) {
                        for (d1, d2) in pairs() {
                            for &r in dev_roundings.iter() {
                                let mut p = params(m, pol, r);
                                let mut w = None;
                                apply(&mut p, &mut w, d1);
                                apply(&mut p, &mut w, d2);
                                let c = PtCase::new(&p, site, d).with_weather(w);
                                guarded(ctx, &mut l, slot, &c);
                            }
                        }
                    }
                }
                ctx.merge(l);
            }));
        }
        for h in hs {
            let _ = h.join();
        }
        done.store(true, Ordering::SeqCst);
    });
    // the midnight frontiers of every offset key, to the last bit (see c11::midnight_frontier_minutes):
    // "the hour is exactly 24.0", "the hour is the smallest negative number" - in all four rounding modes
    let bs = crate::c11::bases(ctx.tier);
    let mut fj = vec![];
    for bi in 0..bs.len() {
        for key in SIX {
            fj.push((bi, key));
        }
    }
    ctx.alphabet("midnight_frontier", json!({"bases": bs.len(), "keys": 6, "what": "offsets at which the intermediate hour crosses -24/0/24/48, bisected to adjacent f64s, +-64 ulp on both sides, x 4 rounding modes"}));
    par_jobs(ctx, &fj, |(bi, key), l| {
        let b = &bs[*bi];
        let br = pt(&b.params, b.site.loc(), b.date, None);
        let slot = Slot::new();
        for x in crate::c11::midnight_frontier_minutes(b, &br, *key) {
            for mode in roundings {
                let mut p = b.params.clone();
                p.minutes.insert(*key, x);
                p.round_seconds = mode;
                guarded(ctx, l, &slot, &PtCase::new(&p, b.site, b.date));
                l.count("midnight_frontier_calls", 1);
            }
        }
    });
    let _ = std::panic::take_hook();
}

pub fn replay(ctx: &Ctx, _clause: &str, case: &Value) {
    let c: PtCase = serde_json::from_value::<PtCase>(case.clone()).map(PtCase::fix).expect("case");
    let mut l = Local::default();
    let slot = Slot::new();
    // hang detection in replay: run in a thread and wait
    let c2 = c.clone();
    let h = std::thread::spawn(move || {
        let _ = std::panic::catch_unwind(|| c2.run());
    });
    let t = std::time::Instant::now();
    while !h.is_finished() && t.elapsed().as_secs_f64() < HANG_LIMIT_S {
        std::thread::sleep(Duration::from_millis(20));
    }
    if !h.is_finished() {
        ctx.violation("hang", &c.key(), c.to_value(), json!({"no_result_after_s": HANG_LIMIT_S}));
        return;
    }
    guarded(ctx, &mut l, &slot, &c);
}
