//! `ipt_verif_rt`: what `#[cfg(ipt_verif_rt)] use ipt_verif_rt::{channel, thread};` resolves to.
//!
//! * feature `std`: the real `std` primitives; only `available_parallelism` can be overridden.
//! * feature `shuttle`: wrappers over shuttle's scoped threads and mpsc channel that log one event
//!   per protocol step (at the point where the step's effect is atomic with the log entry) and, in
//!   "fine" mode, add a scheduling point after every spawn and before every sender drop.
//!
//! All harness-visible state is thread-local: shuttle runs every task of an execution on the OS
//! thread of its `Runner`, so parallel runners on different OS threads do not interfere.

use std::cell::{Cell, RefCell};

thread_local! {
    /// parallelism override (0 = ask the OS)
    pub static PLL: Cell<usize> = Cell::new(0);
}
pub fn set_parallelism(n: usize) {
    PLL.with(|p| p.set(n));
}
fn pll() -> std::io::Result<std::num::NonZeroUsize> {
    let n = PLL.with(|p| p.get());
    if n == 0 {
        std::thread::available_parallelism()
    } else {
        Ok(std::num::NonZeroUsize::new(n).unwrap())
    }
}

#[cfg(feature = "std")]
pub use std::sync::mpsc::channel;
/// what `std::sync` is redirected to in the copy of the sources compiled by engine S
#[cfg(feature = "std")]
pub mod sync {
    pub use std::sync::*;
}
/// what `std::thread` is redirected to: std's, with the parallelism override
#[cfg(feature = "std")]
pub mod thread {
    pub use std::thread::*;
    pub fn available_parallelism() -> std::io::Result<std::num::NonZeroUsize> {
        super::pll()
    }
}

/// One protocol event: (actor task id, kind). Task ids: main 0, collector 1, worker i = 2 + i.
pub type Event = (usize, &'static str);

thread_local! {
    pub static LOG: RefCell<Vec<Event>> = RefCell::new(Vec::new());
    /// set by a scheduler that aborts an execution: destructors then neither yield nor log
    pub static STOPPED: Cell<bool> = Cell::new(false);
    /// extra scheduling points after spawn / before sender drop
    pub static FINE: Cell<bool> = Cell::new(true);
}
pub fn reset(fine: bool) {
    LOG.with(|l| l.borrow_mut().clear());
    STOPPED.with(|s| s.set(false));
    FINE.with(|f| f.set(fine));
}
pub fn take_log() -> Vec<Event> {
    LOG.with(|l| l.borrow().clone())
}
pub fn log_len() -> usize {
    LOG.with(|l| l.borrow().len())
}
pub fn stop() {
    STOPPED.with(|s| s.set(true));
}

#[cfg(feature = "shuttle")]
mod sh {
    use super::*;
    fn stopped() -> bool {
        STOPPED.with(|s| s.get()) || std::thread::panicking()
    }
    fn fine() -> bool {
        FINE.with(|f| f.get())
    }
    fn me() -> usize {
        usize::from(shuttle::current::me())
    }
    pub(crate) fn log(ev: &'static str) {
        if !stopped() {
            LOG.with(|l| l.borrow_mut().push((me(), ev)));
        }
    }

    pub struct Sender<T>(Option<shuttle::sync::mpsc::Sender<T>>);
    pub struct Receiver<T>(shuttle::sync::mpsc::Receiver<T>);
    pub fn channel<T>() -> (Sender<T>, Receiver<T>) {
        let (a, b) = shuttle::sync::mpsc::channel();
        (Sender(Some(a)), Receiver(b))
    }
    impl<T> Sender<T> {
        pub fn send(&self, t: T) -> Result<(), shuttle::sync::mpsc::SendError<T>> {
            // shuttle yields before the effect of send and not between the effect and the return
            let r = self.0.as_ref().unwrap().send(t);
            log("send");
            r
        }
    }
    impl<T> Clone for Sender<T> {
        fn clone(&self) -> Self {
            Sender(Some(self.0.as_ref().unwrap().clone()))
        }
    }
    impl<T> Drop for Sender<T> {
        fn drop(&mut self) {
            if !stopped() && fine() {
                shuttle::thread::yield_now();
            }
            drop(self.0.take()); // shuttle's Drop for Sender has no scheduling point
            log("droptx");
        }
    }
    impl<T> Receiver<T> {
        pub fn recv(&self) -> Result<T, shuttle::sync::mpsc::RecvError> {
            let r = self.0.recv();
            log(if r.is_ok() { "recv" } else { "disc" });
            r
        }
        pub fn try_recv(&self) -> Result<T, shuttle::sync::mpsc::TryRecvError> {
            let r = self.0.try_recv();
            match &r {
                Ok(_) => log("recv"),
                Err(shuttle::sync::mpsc::TryRecvError::Disconnected) => log("disc"),
                Err(_) => log("empty"),
            }
            r
        }
        pub fn recv_timeout(&self, d: std::time::Duration) -> Result<T, shuttle::sync::mpsc::RecvTimeoutError> {
            let r = self.0.recv_timeout(d);
            match &r {
                Ok(_) => log("recv"),
                Err(shuttle::sync::mpsc::RecvTimeoutError::Disconnected) => log("disc"),
                Err(_) => log("timeout"),
            }
            r
        }
        pub fn iter(&self) -> Iter<'_, T> {
            Iter(self)
        }
        pub fn try_iter(&self) -> TryIter<'_, T> {
            TryIter(self)
        }
    }
    pub struct Iter<'a, T>(&'a Receiver<T>);
    impl<'a, T> Iterator for Iter<'a, T> {
        type Item = T;
        fn next(&mut self) -> Option<T> {
            self.0.recv().ok()
        }
    }
    pub struct TryIter<'a, T>(&'a Receiver<T>);
    impl<'a, T> Iterator for TryIter<'a, T> {
        type Item = T;
        fn next(&mut self) -> Option<T> {
            self.0.try_recv().ok()
        }
    }
    pub struct IntoIter<T>(Receiver<T>);
    impl<T> Iterator for IntoIter<T> {
        type Item = T;
        fn next(&mut self) -> Option<T> {
            self.0.recv().ok()
        }
    }
    impl<T> IntoIterator for Receiver<T> {
        type Item = T;
        type IntoIter = IntoIter<T>;
        fn into_iter(self) -> IntoIter<T> {
            IntoIter(self)
        }
    }
    impl<'a, T> IntoIterator for &'a Receiver<T> {
        type Item = T;
        type IntoIter = Iter<'a, T>;
        fn into_iter(self) -> Iter<'a, T> {
            Iter(self)
        }
    }

    /// what `std::sync` is redirected to in the copy of the sources compiled by engine S: shuttle's
    /// primitives (every lock / atomic / condvar operation is a scheduling point of the explorer),
    /// with the logging channel wrappers for mpsc
    pub mod sync {
        pub use shuttle::sync::{Arc, Barrier, BarrierWaitResult, Condvar, LockResult, Mutex, MutexGuard, Once, OnceState, PoisonError, RwLock, RwLockReadGuard, RwLockWriteGuard, TryLockError, TryLockResult, WaitTimeoutResult, Weak};
        pub mod atomic {
            pub use shuttle::sync::atomic::*;
        }
        pub mod mpsc {
            pub use super::super::{channel, IntoIter, Iter, Receiver, Sender, TryIter};
            pub use shuttle::sync::mpsc::{RecvError, RecvTimeoutError, SendError, TryRecvError};
        }
    }

    pub mod thread {
        pub use shuttle::thread::{current, panicking, park, sleep, spawn, yield_now, Builder, JoinHandle, Result, ScopedJoinHandle, Thread, ThreadId};
        #[repr(transparent)]
        pub struct Scope<'scope, 'env: 'scope>(shuttle::thread::Scope<'scope, 'env>);
        impl<'scope, 'env> Scope<'scope, 'env> {
            pub fn spawn<F, T>(&'scope self, f: F) -> ScopedJoinHandle<'scope, T>
            where
                F: FnOnce() -> T + Send + 'scope,
                T: Send + 'scope,
            {
                // shuttle's scoped spawn yields on an internal atomic *before* the task exists and
                // not afterwards: log right after it returns, then (fine mode) add a scheduling point
                let h = self.0.spawn(f);
                super::log("spawn");
                if !super::stopped() && super::fine() {
                    shuttle::thread::yield_now();
                }
                h
            }
        }
        pub fn scope<'env, F, T>(f: F) -> T
        where
            F: for<'scope> FnOnce(&'scope Scope<'scope, 'env>) -> T,
        {
            shuttle::thread::scope(|s| {
                // SAFETY: Scope is repr(transparent) over shuttle's Scope
                let my: &Scope<'_, 'env> = unsafe { &*(s as *const shuttle::thread::Scope<'_, 'env> as *const Scope<'_, 'env>) };
                f(my)
            })
        }
        pub fn available_parallelism() -> std::io::Result<std::num::NonZeroUsize> {
            crate::pll()
        }
    }
}
#[cfg(feature = "shuttle")]
pub use sh::{channel, sync, thread, Receiver, Sender};
