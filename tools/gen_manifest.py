#!/usr/bin/env python3
"""Generate /verif/MANIFEST.json from the table below (single source of truth for the interface)."""
import json, os, subprocess
V = os.path.dirname(os.path.dirname(os.path.abspath(__file__)))

# id -> (engine, category, technique, level text, level note, design ref)
G = "grid"
CHECKS = {
 "C01": (G, "exploration", "bounded exhaustive enumeration of (date x site x zone x method) on the real API, judged by an independent reference ephemeris",
         "No call in the enumerated product (every date 1600-2399 x site/zone lattice incl. poles x 9 methods) puts Dhuhr more than 10 s of hour angle from the reference transit; Dhuhr always reported. Exhaustive over the discrete date dimension, lattice over the real-valued ones.",
         "Trusts the Meeus ch.25 reference ephemeris (self-tested, agrees to 4.2 s) and the stated lattice for lat/lon/gmt/elevation (plus off-lattice sites: fractional coordinates, quarter-hour and real-valued zone offsets).", "3/C01"),
 "C02": (G, "exploration", "bounded exhaustive enumeration of (date x site x weather) with reference-ephemeris altitude oracle and differential weather oracle",
         "Every reported Shurooq/Maghrib on the lattice (|lat|<=60, all dates 1600-2399) has reference altitude -0.833 +- 0.05 deg on the correct side of noon; weather variants move only rise/set-derived times and by < 60 s.",
         "Reference ephemeris; instant placement rule for events crossing local midnight (DESIGN C02); lattice.", "3/C02"),
 "C03": (G, "exploration", "bounded exhaustive enumeration of (date x site x method x angle lattice), altitude oracle + monotone angle chains; plus frontier refinement: the twilight angle at which Fajr/Isha stop existing is bisected to adjacent f64s per (site, date) and every probe and ulp neighbour is judged",
         "Every angle-defined Fajr/Isha/Imsaak on the lattice sits at its configured depression (0.03 deg with the date's declination, 0.5 deg instantaneous); chains over angles 9..21 / 0.5..3 are monotone.",
         "Reference ephemeris; instantaneous clause only for zone offsets <= 4 h; lattice.", "3/C03"),
 "C04": (G, "exploration", "bounded exhaustive enumeration of (date x site x school) with shadow-rule altitude oracle",
         "Every Asr on the lattice (incl. lat = dec days) satisfies arccot(k+tan|lat-dec|) within 0.03 deg, lies strictly between Dhuhr and Maghrib, Hanafi strictly after Shafi.",
         "Reference declination at 0 h local; lattice.", "3/C04"),
 "C05": (G, "exploration", "bounded exhaustive enumeration of (date x site x method x rounding) with order-chain oracle; plus the twilight-angle frontier bisected to adjacent f64s",
         "Every call on the lattice returns exactly the seven keys, unflagged, in strict cyclic order around Dhuhr, for all 4 rounding modes.",
         "Order measured as cyclic offset from the same call's Dhuhr; lattice.", "3/C05"),
 "C06": (G, "exploration", "bounded exhaustive enumeration of (date x site up to +-89.5 x method, custom angle triples, caller weather) against the Sun's daily altitude extremes",
         "On the lattice a time is Invalid iff the defining altitude lies outside the Sun's altitude range of that date (0.05 deg exemption band as stated).",
         "Reference declination; exemption band; lattice.", "3/C06"),
 "C07": (G, "fault_enumeration", "bounded exhaustive enumeration of the crash surface (site x date x method x 27 policies x rounding x deviation sets, iterated by deviation count) under catch_unwind and a watchdog; plus the midnight frontier of every minute-offset key (hour crossing -24/0/24/48) bisected to adjacent f64s, +-64 ulp, 4 rounding modes",
         "No call in the enumerated product (poles to equator, all policies incl. nearest latitude -90..90, all roundings, 0/1/2 parameter deviations to the edges of the stated ranges) panics, hangs (> 5 s) or returns other than 7 entries.",
         "Deviation alphabet and date subset are finite samples of the stated ranges chosen at their edges; hang = no result within 5 s.", "3/C07"),
 "C08": (G, "exploration", "bounded exhaustive differential enumeration: every (site, date, method, policy) against the conventional result of the same call",
         "On the lattice (|lat| <= 70, 8 methods x 14 policies, every date of the stated years) restricted policies leave the other four times untouched, 'invalid' policies keep valid Fajr/Isha unflagged, unflagged times equal the conventional ones and replaced ones are flagged.",
         "Conventional = policy None; exact equality; quantifier exemptions as the property states.", "3/C08"),
 "C09": (G, "exploration", "bounded exhaustive enumeration of dates in order with a history oracle (conventional sweep over neighbouring dates)",
         "For every date of the enumerated years at |lat| <= 64 the nearest-good-day policies report the conventional Fajr/Isha (all six for the all-prayers variant) of the closest date with both valid, earlier on ties, +-1 s, flagged.",
         "Reference nearest good date computed from the library's own conventional results of the neighbouring dates (policy None), search +-366 days.", "3/C09"),
 "C10": (G, "exploration", "bounded exhaustive enumeration of (site, date, method/intervals, policy, substitute latitude) against formula oracles",
         "On the lattice every nearest-latitude / seventh / angle-based / minutes result equals its stated formula evaluated from the conventional Shurooq/Maghrib (or the conventional result at the substitute latitude) within 3 s and is flagged.",
         "Formulas on whole seconds; substitute-latitude times that do not exist are not judged.", "3/C10"),
 "C11": (G, "exploration", "exhaustive enumeration of every clock second (offset sweep -90000..90000 s; -3..+3 days strided with dense windows at each multiple of 24 h; midnight frontier bisected to adjacent f64s) x 7 prayers x 4 modes against an integer rounding table",
         "For every unrounded second of the day (incl. negative and >= 24 h intermediate hours) each mode's output is the table value; validity and flags unaffected; moves < 60 s.",
         "Unrounded h:m:s read from the library's own None mode and bound separately to base + offset.", "3/C11"),
 "C12": (G, "exploration", "bounded exhaustive enumeration of call pairs differing in exactly one parameter, iterated by deviation count (bases at the method defaults, then bases deviating in one parameter)",
         "On the lattice every single-parameter perturbation (42 offsets, 18 intervals incl. the code's own constants 0.5 and 1.5, school, +-1 deg angles, 5 weather points; 4 policies incl. the all-prayers nearest-good-day one) moves exactly the documented entries by exactly the documented amount and nothing else.",
         "Angle/school/weather locality under the default policy only on fallback-free dates.", "3/C12"),
 "C13": (G, "exploration", "exhaustive enumeration of every run of three consecutive dates 1600-2399 per site/method",
         "No consecutive-date triple on the lattice exceeds the stated second-difference bounds or a 4-minute day-to-day step.",
         "Differences on truncated seconds; lattice.", "3/C13"),
 "C14": (G, "exploration", "exhaustive enumeration of (start, span -400..2000, k 0..64) against a set-of-days model; range API vs per-day API",
         "num_days, partition and the range API agree with the set-of-days model for every enumerated range incl. reversed, empty and single-day ones.",
         "8 start dates incl. 1582-09-20 and 0001-01-01; range API compared on a span subset; block form compared with the sequential form for spans <= 400.", "3/C14"),
 "C15": ("sched", "model_checking", "stateless model checking of the real code under a controlled scheduler (exhaustive / preemption-bounded DFS over shuttle scheduling points) + explicit-state protocol model (stateright BFS) bound to the code by replaying every model trace on it and walking every code trace through the model",
         "Every schedule of the real parallel range API for <= 3 partitions (unbounded DFS) and all schedules within the stated preemption bound for 3-6 partitions return exactly the sequential map and terminate; all reachable states of the protocol model for 1-7 partitions satisfy no-loss/no-duplicate/termination; every complete model trace for <= 3 partitions (and the bounded ones above) replays on the code event for event; 15k-65k (workers, days, threshold) configurations over four data scenarios (incl. a high-latitude fall-back season and a range across 1582-10-15) agree with the sequential result on real threads.",
         "shuttle's channel/scoped-thread semantics stand in for std's (sequentially consistent); scheduling points = wrapped operations (+ after spawn / before sender drop).", "3/C15"),
 "C16": (G, "exploration", "exhaustive enumeration of a 0.25/0.125 deg lat/lon grid plus special meridians/parallels (approached geometrically, 10^-2..10^-12 deg) against an independent 3-D vector bearing",
         "Every grid point agrees with the vector bearing within 1e-6 deg, lies in (-180,180], label/text agree with the sign, elevation-independent.",
         "Spherical Earth; library's Kaaba constants.", "3/C16"),
 "C17": (G, "exploration", "exhaustive enumeration of the complete input space (3 652 059 dates) in five orders (ascending, descending, strided permutations) plus all ordered pairs/triples over a month-boundary alphabet, against an integer tabular calendar",
         "Every date 0001-01-01..9999-12-31 maps to the arithmetic Islamic calendar date, correct weekday, successive days, no panic - whatever was converted before it on the same thread (five sweep orders, every ordered pair/triple of the month-boundary alphabet).",
         "Reference = Calendrical Calculations arithmetic Islamic calendar (self-tested on its sample data).", "3/C17"),
 "C18": (G, "exploration", "exhaustive enumeration of an f64 bit-pattern alphabet x 6 types x 3 construction routes + every text of length <= 5 (thorough 6) over a 12-character number-grammar alphabet + composite documents",
         "All three routes accept exactly the finite in-range values for every pattern of the alphabet, read back bit-identical, never panic, and agree; composite documents reject any out-of-range embedded quantity.",
         "The f64 a text denotes is std's / serde_json's own reading.", "3/C18"),
 "C19": (G, "exploration", "exhaustive enumeration of a product of command-line alphabets, each as an 8-run sequence of the real binary, judged against the library; rejected lines and parameter files; the clock-dependent date defaults under three TZ answers for today",
         "For every enumerated command line the JSON output decodes to the library result, the parameter file reproduces byte-identical output, the listing matches, and every invalid line is rejected with non-zero exit and no files.",
         "Binary built from /repo's working tree; the clock is owned through TZ (expected today = UTC now + zone offset, bracketed before/after each run).", "3/C19"),
 "C20": (G, "exploration", "bounded exhaustive enumeration of call pairs (GMT shift, meridian+GMT shift) per site/date/method",
         "No pair on the lattice (|lat| <= 45, |d| <= 1 h, zone offsets <= 3 h) differs by more than 10 s or changes validity.",
         "Zone offsets within 3 h of lon/15 so both calls report the same physical events.", "3/C20"),
}

def cmd(i, tier): return f"./run check {i} {tier}"

HIST = {"C01", "C02", "C05", "C08", "C09", "C10", "C12", "C13", "C14", "C20"}
checks = []
for i, (eng, cat, tech, text, note, ref) in sorted(CHECKS.items()):
    if i in HIST:
        tech += "; plus exhaustive enumeration of call sequences (depth 2-3 over a small alphabet of calls incl. range operations) against fresh-process references"
        text += " In addition every call sequence up to depth 2-3 over the alphabets listed in the evidence returns, call by call, exactly what the same call returns alone in a fresh process (no dependence on previous calls)."
    if i == "C15":
        text += " Engine S compiles a copy of the sources in which every std::sync/std::thread primitive is redirected to the scheduler-aware shim, so locks and atomics a change introduces are scheduling points too; configurations run under a time budget and are reported as CAPPED (exhaustive: false) if they hit it. Loss of the model<->code binding withdraws the model-derived coverage but is not a violation."
    checks.append({
        "property_id": i,
        "quick_cmd": cmd(i, "quick"),
        "thorough_cmd": cmd(i, "thorough"),
        "evidence_file": f"/verif/evidence/{i}.json",
        "replay_cmd_template": "./run replay {path}",
        "engine": eng,
        "level_claimed": {"category": cat, "text": text, "design_ref": f"DESIGN.md section {ref}"},
        "level_note": note,
        "technique": tech,
    })

props = [json.loads(l)["id"] for l in open(os.path.join(V, "properties.jsonl"))]
NA_REASON = {}
not_app = [{"property_id": p, "reason": NA_REASON.get(p, "check not yet built in this revision (claimed in a later commit)")} for p in props if p not in CHECKS]

hook_commits = subprocess.run(["git", "-C", "/repo", "log", "--format=%H", "--grep=^verif hook"], capture_output=True, text=True).stdout.split()
manifest = {
    "version": 1,
    "setup_cmd": "./run setup",
    "hooks": {
        "guard": "--cfg ipt_verif_rt",
        "enable": "engine S compiles a copy of /repo/src made on every check (tools/redirect_sync.py: std::sync / std::thread paths redirected to the scheduler-aware shim; /repo itself untouched) as the library of its own package, whose build.rs emits cargo:rustc-cfg=ipt_verif_rt (no RUSTFLAGS, /repo/Cargo.toml not involved); every other check uses the unhooked public API or the CLI binary",
        "baseline_off_cmd": "cd /repo && cargo test --workspace --no-fail-fast --offline",
        "source_commits": hook_commits,
        "add_only": True,
    },
    "engines": [
        {"name": "grid", "path": "/verif/engines/grid", "serves_properties": [p for p in props if p not in ("C15",)], "kind_free_text": "bounded exhaustive input-lattice / operation-sequence explorer over the public API with reference-model oracles (engine G) and CLI process explorer (engine P)"},
        {"name": "sched", "path": "/verif/engines/sched", "serves_properties": ["C15"], "kind_free_text": "schedule explorer: shuttle-controlled exhaustive DFS of the real parallel range API + explicit-state protocol model (stateright) + replay of all model traces on the code"},
    ],
    "checks": checks,
    "not_applicable": not_app,
    "notes": "Exit codes: 0 held, 1 violation (VIOLATION line), >=2 machinery failure. Known findings: /verif/KNOWN_FINDINGS.txt (currently only fixed: lines - nine repaired defects). Seeded detection demonstrations: /verif/seeded/ (239 property-breaking changes in seven rounds; one of them, C20-m14, is reported by no check - DESIGN.md section 7); false-alarm probes: /verif/refactorings/ (16 behaviour-preserving refactorings).",
}
json.dump(manifest, open(os.path.join(V, "MANIFEST.json"), "w"), indent=1)
print("wrote MANIFEST.json with", len(checks), "checks;", len(not_app), "not yet claimed")
