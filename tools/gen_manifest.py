#!/usr/bin/env python3
"""Generate /verif/MANIFEST.json from the table below (single source of truth for the interface)."""
import json, os, subprocess
V = os.path.dirname(os.path.dirname(os.path.abspath(__file__)))

# id -> (engine, category, technique, level text, level note, design ref)
G = "grid"
CHECKS = {
 "C01": (G, "exploration", "bounded exhaustive enumeration of (date x site x zone x method) on the real API, judged by an independent reference ephemeris",
         "No call in the enumerated product (every date 1600-2399 x site/zone lattice incl. poles x 9 methods) puts Dhuhr more than 10 s of hour angle from the reference transit; Dhuhr always reported. Exhaustive over the discrete date dimension, lattice over the real-valued ones.",
         "Trusts the Meeus ch.25 reference ephemeris (self-tested, agrees to 4.2 s) and the stated lattice for lat/lon/gmt/elevation.", "3/C01"),
 "C02": (G, "exploration", "bounded exhaustive enumeration of (date x site x weather) with reference-ephemeris altitude oracle and differential weather oracle",
         "Every reported Shurooq/Maghrib on the lattice (|lat|<=60, all dates 1600-2399) has reference altitude -0.833 +- 0.05 deg on the correct side of noon; weather variants move only rise/set-derived times and by < 60 s.",
         "Reference ephemeris; instant placement rule for events crossing local midnight (DESIGN C02); lattice.", "3/C02"),
 "C03": (G, "exploration", "bounded exhaustive enumeration of (date x site x method x angle lattice), altitude oracle + monotone angle chains",
         "Every angle-defined Fajr/Isha/Imsaak on the lattice sits at its configured depression (0.03 deg with the date's declination, 0.5 deg instantaneous); chains over angles 9..21 / 0.5..3 are monotone.",
         "Reference ephemeris; instantaneous clause only for zone offsets <= 4 h; lattice.", "3/C03"),
 "C04": (G, "exploration", "bounded exhaustive enumeration of (date x site x school) with shadow-rule altitude oracle",
         "Every Asr on the lattice (incl. lat = dec days) satisfies arccot(k+tan|lat-dec|) within 0.03 deg, lies strictly between Dhuhr and Maghrib, Hanafi strictly after Shafi.",
         "Reference declination at 0 h local; lattice.", "3/C04"),
 "C05": (G, "exploration", "bounded exhaustive enumeration of (date x site x method x rounding) with order-chain oracle",
         "Every call on the lattice returns exactly the seven keys, unflagged, in strict cyclic order around Dhuhr, for all 4 rounding modes.",
         "Order measured as cyclic offset from the same call's Dhuhr; lattice.", "3/C05"),
 "C06": (G, "exploration", "bounded exhaustive enumeration of (date x site up to +-89.5 x method) against the Sun's daily altitude extremes",
         "On the lattice a time is Invalid iff the defining altitude lies outside the Sun's altitude range of that date (0.05 deg exemption band as stated).",
         "Reference declination; exemption band; lattice.", "3/C06"),
}

def cmd(i, tier): return f"./run check {i} {tier}"

checks = []
for i, (eng, cat, tech, text, note, ref) in sorted(CHECKS.items()):
    checks.append({
        "property_id": i,
        "quick_cmd": cmd(i, "quick"),
        "thorough_cmd": cmd(i, "thorough"),
        "evidence_file": f"/verif/evidence/{i}.json",
        "replay_cmd_template": "./run replay {path}",
        "engine": eng,
        "level_claimed": {"category": cat, "text": text, "design_ref": f"DESIGN.md section {ref}"},
        "level_note": note,
        "technique": tech,
    })

props = [json.loads(l)["id"] for l in open(os.path.join(V, "properties.jsonl"))]
NA_REASON = {}
not_app = [{"property_id": p, "reason": NA_REASON.get(p, "check not yet built in this revision (claimed in a later commit)")} for p in props if p not in CHECKS]

hook_commits = subprocess.run(["git", "-C", "/repo", "log", "--format=%H", "--grep=^verif hook"], capture_output=True, text=True).stdout.split()
manifest = {
    "version": 1,
    "setup_cmd": "./run setup",
    "hooks": {
        "guard": "--cfg ipt_verif_rt",
        "enable": "engine S compiles /repo/src/lib.rs as the library of its own package whose build.rs emits cargo:rustc-cfg=ipt_verif_rt (no RUSTFLAGS, /repo/Cargo.toml untouched by the build); every other check uses the unhooked public API or the CLI binary",
        "baseline_off_cmd": "cd /repo && cargo test --workspace --no-fail-fast --offline",
        "source_commits": hook_commits,
        "add_only": True,
    },
    "engines": [
        {"name": "grid", "path": "/verif/engines/grid", "serves_properties": [p for p in props if p not in ("C15",)], "kind_free_text": "bounded exhaustive input-lattice / operation-sequence explorer over the public API with reference-model oracles (engine G) and CLI process explorer (engine P)"},
        {"name": "sched", "path": "/verif/engines/sched", "serves_properties": ["C15"], "kind_free_text": "schedule explorer: shuttle-controlled exhaustive DFS of the real parallel range API + explicit-state protocol model (stateright) + replay of all model traces on the code"},
    ],
    "checks": checks,
    "not_applicable": not_app,
    "notes": "Exit codes: 0 held, 1 violation (VIOLATION line), >=2 machinery failure. Known findings: /verif/KNOWN_FINDINGS.txt. Seeded detection demonstrations: /verif/seeded/.",
}
json.dump(manifest, open(os.path.join(V, "MANIFEST.json"), "w"), indent=1)
print("wrote MANIFEST.json with", len(checks), "checks;", len(not_app), "not yet claimed")
