#!/usr/bin/env bash
# run seed_eval for every seeded change matching the glob (default: all) against its own property's check
cd /verif
for d in ${1:-seeded/C*-m*}; do
  id=$(basename $d | cut -d- -f1)
  echo "== $d"
  tools/seed_eval.sh $d $id 2>&1 | tail -3
done
