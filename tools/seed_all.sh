#!/usr/bin/env bash
# run seed_eval for every seeded change matching the glob (default: all) against its own property's check
# plus the extra check ids given after the glob
cd "$(dirname "${BASH_SOURCE[0]}")/.."
glob="${1:-seeded/C*-m*}"; shift
for d in $glob; do
  id=$(basename $d | cut -d- -f1)
  extra=""; for x in "$@"; do [ "$x" != "$id" ] && extra="$extra $x"; done
  echo "== $d"
  tools/seed_eval.sh $d $id $extra 2>&1 | grep -E "rc="
done
