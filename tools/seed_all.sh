#!/usr/bin/env bash
# run seed_eval for every seeded change against its own property's check (plus extra ids given as "ID:extra,extra")
cd /verif
for d in seeded/C*-m*; do
  id=$(basename $d | cut -d- -f1)
  echo "== $d"
  tools/seed_eval.sh $d $id 2>&1 | tail -3
done
