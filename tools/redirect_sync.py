#!/usr/bin/env python3
"""redirect_sync.py <src dir of the repository> <output dir>

Engine S compiles a *copy* of /repo/src in which every use of `std::sync` and `std::thread` resolves
to `ipt_verif_rt::sync` / `ipt_verif_rt::thread` (under the shuttle flavour: shuttle's Mutex, RwLock,
Condvar, atomics, Arc, mpsc, spawn, scope ... - every operation a scheduling point of the explorer;
under the std flavour: plain re-exports of std). The declared hook in prayer_times_dt_rng_block
covers the primitives the code uses today; this build-time redirection makes sure that any *other*
synchronisation primitive a change introduces is seen by the controlled scheduler as well, instead
of silently running outside it ("code left on std is invisible to the tool").

Purely textual, deliberately conservative:
  * `use std::{ a, sync::X, thread::{self}, b };`  ->  `use std::{ a, b }; use ipt_verif_rt::{ sync::X, thread::{self} };`
  * every other `std::sync` / `std::thread` path prefix -> `ipt_verif_rt::sync` / `ipt_verif_rt::thread`
Anything it cannot see (a macro-generated path, `use std as s`) is reported by engine S's
assumption monitor instead.
"""
import os
import re
import sys


def split_top_level(body):
    """split a use-group body at depth-0 commas"""
    parts, depth, cur = [], 0, ""
    for ch in body:
        if ch == "{":
            depth += 1
        elif ch == "}":
            depth -= 1
        if ch == "," and depth == 0:
            parts.append(cur)
            cur = ""
        else:
            cur += ch
    if cur.strip():
        parts.append(cur)
    return [p.strip() for p in parts if p.strip()]


def rewrite_groups(text):
    out, i = "", 0
    pat = re.compile(r"\b(pub(?:\([^)]*\))?\s+)?use\s+std::\{")
    while True:
        m = pat.search(text, i)
        if not m:
            out += text[i:]
            break
        out += text[i:m.start()]
        # find the matching closing brace
        j, depth = m.end(), 1
        while j < len(text) and depth > 0:
            if text[j] == "{":
                depth += 1
            elif text[j] == "}":
                depth -= 1
            j += 1
        body = text[m.end():j - 1]
        # expect `;` after the group
        k = j
        while k < len(text) and text[k] in " \t\r\n":
            k += 1
        if k >= len(text) or text[k] != ";":
            out += text[m.start():j]
            i = j
            continue
        entries = split_top_level(body)
        moved = [e for e in entries if re.match(r"(sync|thread)\b", e)]
        kept = [e for e in entries if e not in moved]
        if not moved:
            out += text[m.start():k + 1]
            i = k + 1
            continue
        vis = m.group(1) or ""
        pieces = []
        if kept:
            pieces.append(f"{vis}use std::{{{', '.join(kept)}}};")
        if moved:
            pieces.append(f"{vis}use ipt_verif_rt::{{{', '.join(moved)}}};")
        out += "\n".join(pieces)
        i = k + 1
    return out


def rewrite(text):
    text = rewrite_groups(text)
    text = re.sub(r"\bstd::sync\b", "ipt_verif_rt::sync", text)
    text = re.sub(r"\bstd::thread\b", "ipt_verif_rt::thread", text)
    return text


def main():
    src, dst = sys.argv[1], sys.argv[2]
    n_files = n_changed = 0
    for root, _dirs, files in os.walk(src):
        rel = os.path.relpath(root, src)
        os.makedirs(os.path.join(dst, rel), exist_ok=True)
        for f in files:
            p = os.path.join(root, f)
            q = os.path.join(dst, rel, f)
            if f.endswith(".rs"):
                t = open(p, encoding="utf-8").read()
                r = rewrite(t)
                n_files += 1
                n_changed += r != t
            else:
                r = None
            new = r.encode("utf-8") if r is not None else open(p, "rb").read()
            # keep mtimes of unchanged outputs so that cargo does not rebuild needlessly
            if not (os.path.exists(q) and open(q, "rb").read() == new):
                open(q, "wb").write(new)
    # remove outputs whose source disappeared
    for root, _dirs, files in os.walk(dst):
        rel = os.path.relpath(root, dst)
        for f in files:
            if not os.path.exists(os.path.join(src, rel, f)):
                os.remove(os.path.join(root, f))
    print(f"redirect_sync: {n_files} source files, {n_changed} with redirected std::sync/std::thread paths")


if __name__ == "__main__":
    main()
