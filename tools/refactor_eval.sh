#!/usr/bin/env bash
# False-alarm probe: apply a behaviour-preserving refactoring (refactorings/<name>/patch.diff) to a copy of
# the repository, run the repository's own suite and then EVERY quick check against it; all must stay silent.
# usage: IPT_REPO=<repo copy (git worktree)> tools/refactor_eval.sh refactorings/<name>
set -u
SD="$(cd "$1" && pwd)"
V="$(cd "$(dirname "${BASH_SOURCE[0]}")/.." && pwd)"
R="${IPT_REPO:?set IPT_REPO to a scratch copy of the repository}"
export CARGO_NET_OFFLINE=true CARGO_TERM_COLOR=never
[ -z "$(git -C "$R" status --porcelain)" ] || { echo "$R not clean"; exit 2; }
git -C "$R" apply "$SD/patch.diff" || { echo "patch does not apply"; exit 2; }
out="$SD/eval.txt"; : > "$out"
if ( cd "$R" && timeout 900 cargo test --workspace --no-fail-fast --offline > /tmp/ref_suite.log 2>&1 ); then echo "suite: pass ($(grep -E '^test result' /tmp/ref_suite.log | awk '{p+=$4; f+=$6} END {print p" passed, "f" failed"}'))" >> "$out"; else echo "suite: FAIL" >> "$out"; fi
for i in 01 02 03 04 05 06 07 08 09 10 11 12 13 14 15 16 17 18 19 20; do
  o=$(cd "$V" && IPT_REPO="$R" IPT_OUT_DIR="/tmp/ipt-ref-out" timeout 1500 ./run check C$i quick 2>&1); rc=$?
  echo "C$i rc=$rc violations=$(echo "$o" | grep -c '^VIOLATION') $(echo "$o" | grep -E 'MODEL-BINDING-LOST|CAPPED|ASSUMPTION-WARNING|MACHINERY' | cut -c1-160 | head -2 | tr '\n' ' ') $(echo "$o" | grep -m1 -A1 '^VIOLATION' | tail -1 | cut -c1-200)" >> "$out"
done
git -C "$R" checkout -q -- .
cat "$out"
