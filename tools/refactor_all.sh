#!/usr/bin/env bash
cd "$(dirname "${BASH_SOURCE[0]}")/.."
for d in ${1:-refactorings/*/}; do d=${d%/}; echo "== $d"; tools/refactor_eval.sh $d 2>&1 | grep -vE "rc=0 violations=0 *$" ; done
