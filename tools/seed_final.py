#!/usr/bin/env python3
"""tools/seed_final.py <run dir of a seed_all.sh re-evaluation (a snapshot of /verif)> <verif commit>
copies the finished results back as seeded/<id>/eval_final.json, records them in meta.json
("final_re_evaluation") and lists every seed whose own check no longer reports it"""
import json, os, re, sys
V = os.path.dirname(os.path.dirname(os.path.abspath(__file__)))
run, commit = sys.argv[1], sys.argv[2]
log = open(os.path.join(run, "..", "log")).read() if os.path.exists(os.path.join(run, "..", "log")) else open(sys.argv[3]).read()
done = []
cur = None
for line in log.splitlines():
    m = re.match(r"== seeded/(\S+)", line)
    if m:
        cur = m.group(1)
    elif "rc=" in line and cur:
        if cur not in done:
            done.append(cur)
lost = []
for sid in done:
    src = os.path.join(run, "seeded", sid, "eval_checks_only.json")
    if not os.path.exists(src):
        continue
    e = json.load(open(src))
    d = os.path.join(V, "seeded", sid)
    json.dump(e, open(os.path.join(d, "eval_final.json"), "w"), indent=1)
    mp = os.path.join(d, "meta.json")
    meta = json.load(open(mp))
    res = {k[6:]: v for k, v in e.items() if k.startswith("check_")}
    meta["final_re_evaluation"] = {"verif_commit": commit, "results": res}
    # exit 124 = the evaluation script's own 25-minute cap hit (loaded machine) after VIOLATION lines had been printed
    det = sorted(k for k, v in res.items() if v.get("exit") == 1 or (v.get("exit") == 124 and v.get("violation_lines", 0) > 0))
    prev = meta.get("detected_by", [])
    own = sid.split("-")[0]
    if own in prev and own in res and own not in det:
        lost.append(sid)
    json.dump(meta, open(mp, "w"), indent=1)
print(f"{len(done)} seeds re-evaluated at {commit}; own-check detections lost: {lost}")
