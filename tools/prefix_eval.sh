#!/usr/bin/env bash
# Detection demonstration on the naturally occurring defects: reverse-apply one fix: commit in /repo's
# working tree, run the given checks (quick), restore. usage: tools/prefix_eval.sh <commit> <ids...>
set -u
c="$1"; shift
[ -z "$(git -C /repo status --porcelain)" ] || { echo "/repo not clean"; exit 2; }
git -C /repo show "$c" -- src | git -C /repo apply -R || exit 2
for id in "$@"; do
  cp /verif/evidence/$id.json /tmp/pf_evidence_$id.json 2>/dev/null
  out=$(cd /verif && timeout 1500 ./run check "$id" quick 2>&1); rc=$?
  echo "  revert($c) $id rc=$rc violations=$(echo "$out" | grep -c '^VIOLATION') :: $(echo "$out" | grep -m1 -A1 '^VIOLATION' | tail -1 | cut -c1-220)"
  cp /tmp/pf_evidence_$id.json /verif/evidence/$id.json 2>/dev/null
done
git -C /repo checkout -q -- .
