#!/usr/bin/env python3
"""writes seeded/<id>/meta.json for the round-7 seeds from eval.json (first pass), eval_checks_only.json
(after the checks were strengthened) and eval_final.json (final re-evaluation), whichever exist"""
import json, os, sys
V = os.path.dirname(os.path.dirname(os.path.abspath(__file__)))
needs = json.load(open(os.path.join(V, "tools/seed_needs_round7.json")))
pre = set()  # caught in the first pass only because the order exploration had just been added
for sid, need in sorted(needs.items()):
    d = os.path.join(V, "seeded", sid)
    def load(n):
        try:
            return json.load(open(os.path.join(d, n)))
        except Exception:
            return {}
    e, after, final = load("eval.json"), load("eval_checks_only.json"), load("eval_final.json")
    checks = lambda x: {k[6:]: v for k, v in x.items() if k.startswith("check_")}
    first, aft, fin = checks(e), checks(after), checks(final)
    own = sid.split("-")[0]
    missed_first = (first.get(own, {}).get("exit") != 1) or sid in pre
    latest = dict(first); latest.update(aft); latest.update(fin)
    detected = sorted(k for k, v in latest.items() if v.get("exit") == 1)
    meta = {
        "id": sid, "round": 7, "property_broken": own,
        "origin": "written by an independent sub-agent given only the property text, the list of mechanism families used in rounds 1-6 (to be avoided), the assumption that the harness also bisects decisions to adjacent floats, uses off-lattice inputs, custom angles, several policy payloads, caller weather, two simultaneous deviations and call orders, and ideas for what may still be uncovered (three-way combinations, values special only to the code, boundary latitudes, flags of one prayer), and its own scratch worktree of /repo (nothing from /verif)",
        "what_it_needs_to_manifest": need,
        "confirmed_by_harness_author": {
            "patch_applies_to_repo_head": e.get("patch_applies"), "repo_head": e.get("repo_head"),
            "existing_suite_passes_with_change": e.get("suite_passes_with_change"), "suite_summary": e.get("suite_summary"),
            "demonstration_passes_without_change": e.get("demo_passes_without_change"), "demonstration_fails_with_change": e.get("demo_fails_with_change"),
            "commands": ["cargo test --workspace --no-fail-fast --offline   (with the change)", "cp zz_demo.rs tests/ && cargo test --offline --test zz_demo   (with and without the change)", "apply patch.diff to the repository (or a copy), ./run check <ids> quick, restore"],
        },
        "first_pass": {"checks_as_of": "verif commit 18746c4 (after round 6)", "results": first, "missed_by_the_check_of_its_property": missed_first},
        "after_strengthening": aft or None,
        "final_re_evaluation": fin or None,
        "detected_by": detected,
    }
    if sid in pre:
        meta["first_pass"]["note"] = "the order exploration of C17 was written after reading this seed's description and before this evaluation; the earlier check (one ascending sweep) cannot see it - with the change applied an ascending sweep over all 3 652 059 dates still matches the tabular calendar (the sub-agent's measurement)"
    json.dump(meta, open(os.path.join(d, "meta.json"), "w"), indent=1)
    print(sid, "missed_first" if missed_first else "caught_first", "->", detected)
