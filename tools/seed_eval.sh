#!/usr/bin/env bash
# Evaluate one seeded change: tools/seed_eval.sh <seed dir containing patch.diff, zz_demo.rs> <check ids...>
# 1. in a scratch worktree of /repo's HEAD: existing suite passes with the change, demo fails with it, passes without
# 2. apply to /repo, run the given checks (quick), undo. Results -> <seed dir>/eval.json
set -u
SD="$(cd "$1" && pwd)"; shift
IDS="$*"
V="$(cd "$(dirname "${BASH_SOURCE[0]}")/.." && pwd)"   # the verification tree this script belongs to
R="${IPT_REPO:-/repo}"                                  # the repository copy the change is applied to
WT=/tmp/ipt-seed-wt
export CARGO_NET_OFFLINE=true CARGO_TERM_COLOR=never
if [ -n "${SEED_CHECKS_ONLY:-}" ]; then
  E="$SD/eval_checks_only.json"; rm -f "$E"
else
if [ ! -d "$WT" ]; then git -C /repo worktree add -q --detach "$WT" HEAD || exit 2; fi
cd "$WT" && git checkout -q --detach "$(git -C /repo rev-parse HEAD)" && git checkout -q -- . && rm -f tests/zz_demo.rs
fi
res() { python3 - "$@" <<'PY'
import json,sys
p=sys.argv[1]; k=sys.argv[2]; v=sys.argv[3]
try: d=json.load(open(p))
except Exception: d={}
try: v=json.loads(v)
except Exception: pass
d[k]=v; json.dump(d,open(p,'w'),indent=1)
PY
}
if [ -z "${SEED_CHECKS_ONLY:-}" ]; then
E="$SD/eval.json"; rm -f "$E"
res "$E" repo_head "\"$(git -C /repo rev-parse --short HEAD)\""
# demo without the change
cp "$SD/zz_demo.rs" tests/zz_demo.rs
if timeout 900 cargo test --offline --test zz_demo >/tmp/seed_demo_clean.log 2>&1; then res "$E" demo_passes_without_change true; else res "$E" demo_passes_without_change false; fi
rm -f tests/zz_demo.rs
if ! git apply --check "$SD/patch.diff" 2>/tmp/seed_apply.log; then res "$E" patch_applies false; git checkout -q -- .; exit 1; fi
git apply "$SD/patch.diff"; res "$E" patch_applies true
if timeout 900 cargo test --workspace --no-fail-fast --offline >/tmp/seed_suite.log 2>&1; then res "$E" suite_passes_with_change true; else res "$E" suite_passes_with_change false; fi
res "$E" suite_summary "\"$(grep -E '^test result' /tmp/seed_suite.log | awk '{p+=$4; f+=$6} END {print p" passed, "f" failed"}')\""
cp "$SD/zz_demo.rs" tests/zz_demo.rs
if timeout 900 cargo test --offline --test zz_demo >/tmp/seed_demo_mut.log 2>&1; then res "$E" demo_fails_with_change false; else res "$E" demo_fails_with_change true; fi
rm -f tests/zz_demo.rs; git checkout -q -- .
fi
# checks against the repository (copy)
if [ -n "$(git -C "$R" status --porcelain)" ]; then echo "$R not clean"; exit 2; fi
git -C "$R" apply "$SD/patch.diff" || exit 2
for id in $IDS; do
  cp "$V/evidence/$id.json" /tmp/seed_evidence_$id.json 2>/dev/null
  out=$(cd "$V" && IPT_REPO="$R" timeout 1500 ./run check "$id" quick 2>&1); rc=$?
  nviol=$(echo "$out" | grep -c '^VIOLATION')
  first=$(echo "$out" | grep -m1 -A1 '^VIOLATION' | tail -1 | cut -c1-300 | tr -d '"\\' )
  res "$E" "check_$id" "{\"exit\": $rc, \"violation_lines\": $nviol, \"first\": \"$first\"}"
  echo "  $id rc=$rc violations=$nviol"
  cp /tmp/seed_evidence_$id.json "$V/evidence/$id.json" 2>/dev/null
done
git -C "$R" checkout -q -- .
